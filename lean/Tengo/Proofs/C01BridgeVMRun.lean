import Tengo.Proofs.C01BridgeVMStep
import Tengo.Proofs.VMRun
/-!
C01 bridge, VM side, layer 3: RUNS. `runNB_sim`: `m` bounded steps of the fragment's machine are `m`
dispatches of `VM.run` (allocation counter unlimited: `allocs ≤ 0`); `runs_halt` / `fails_failed`: the
fragment's `RunsB` to the end of the code / `FailsB` become the `halted` / `failed` outcome of `VM.run`
for every sufficient fuel; `rel_init`: the VM's initial core corresponds to the fragment's initial state.
-/
set_option linter.unusedVariables false
set_option linter.unusedSimpArgs false
namespace Tengo.Proofs.C01Bridge
open Tengo.Model Tengo.Model.Spec Tengo.Model.VM Tengo.Model.F0

section lift
variable {is : List Ins} {K n : Nat} {cs : Nat → SV} {code : Code}

theorem run_next (code : Code) (keep fuel : Nat) (allocs : Int) (c c' : Core) (g : GSt) (h : Spec.St) (log : Log)
    (al : Bool) (hx : XOk (exec code c) g h (.next c' al)) (ha : allocs ≤ 0) :
    ∃ allocs' log', allocs' ≤ 0 ∧
      run code keep (fuel + 1) allocs ⟨c, g, h⟩ log = run code keep fuel allocs' ⟨c', g, h⟩ log' := by
  rw [run_succ]
  unfold XOk runX at hx
  simp only [hx]
  cases al with
  | false => exact ⟨allocs, _, ha, rfl⟩
  | true =>
    have : (allocs - 1 == 0) = false := by
      simp only [beq_eq_false_iff_ne, ne_eq]; omega
    simp only [this]
    exact ⟨allocs - 1, _, by omega, rfl⟩

/-- **VM bridge, runs.** `m` bounded steps of the fragment's machine are `m` dispatches of `VM.run`. -/
theorem runNB_sim (hcode : CodeRel is K n cs code) (keep : Nat) (g : GSt) (h : Spec.St) :
    ∀ (m : Nat) (s s' : F0.St SV) (c : Core) (fuel : Nat) (allocs : Int) (log : Log),
      runNB stackSize vmSem cs is m s = .at s' → Rel n s c → allocs ≤ 0 →
      ∃ c' allocs' log', allocs' ≤ 0 ∧ Rel n s' c' ∧
        run code keep (m + fuel) allocs ⟨c, g, h⟩ log = run code keep fuel allocs' ⟨c', g, h⟩ log'
  | 0, s, s', c, fuel, allocs, log, hr, hrel, ha => by
    simp only [runNB, Out.at.injEq] at hr
    subst hr
    exact ⟨c, allocs, log, ha, hrel, by simp⟩
  | m + 1, s, s', c, fuel, allocs, log, hr, hrel, ha => by
    simp only [runNB] at hr
    cases hs : stepB stackSize vmSem cs is s with
    | next s1 =>
      rw [hs] at hr
      simp only at hr
      obtain ⟨hstep, hb⟩ := stepB_next_inv hs
      obtain ⟨c1, al, hx, hrel1⟩ := step_sim hcode hrel hstep hb g h
      have e : m + 1 + fuel = (m + fuel) + 1 := by omega
      obtain ⟨a1, l1, ha1, hrun1⟩ := run_next code keep (m + fuel) allocs c c1 g h log al hx ha
      obtain ⟨c', a', l', ha', hrel', hrun'⟩ := runNB_sim hcode keep g h m s1 s' c1 fuel a1 l1 hr hrel1 ha1
      exact ⟨c', a', l', ha', hrel', by rw [e, hrun1, hrun']⟩
    | err => rw [hs] at hr; cases hr
    | stuck => rw [hs] at hr; cases hr

theorem run_halted_mono (code : Code) (keep m : Nat) (allocs : Int) (cfg : Cfg) (log : Log) (o : VM.Outcome)
    (ho : (run code keep m allocs cfg log).1 = o) (hne : ∀ c, o ≠ .outOfFuel c) (k : Nat) :
    (run code keep (m + k) allocs cfg log).1 = o := by
  rw [run_fuel_mono code keep m allocs cfg log k (by intro c; rw [ho]; exact hne c)]
  exact ho

/-- **VM bridge, complete runs.** If the fragment's (bounded) machine runs from `s` to the end of the code,
`VM.run` started in a corresponding configuration halts — for every sufficient fuel, with the heap
untouched — in a core whose globals are the fragment's final globals and whose operand stack has the
fragment's final height. -/
theorem runs_halt (hcode : CodeRel is K n cs code) {s : F0.St SV} {c : Core} (hrel : Rel n s c)
    (st' : List SV) (g' : Nat → SV) (hruns : RunsB stackSize vmSem cs is s ⟨csize is, st', g'⟩)
    (keep : Nat) (allocs : Int) (log : Log) (g : GSt) (h : Spec.St) (ha : allocs ≤ 0) :
    ∃ (m : Nat) (c' : Core), GlobRel n g' c'.regs ∧ c'.regs.sp = st'.length ∧
      ∀ k, (run code keep (m + 1 + k) allocs ⟨c, g, h⟩ log).1 = .halted ⟨c', g, h⟩ := by
  obtain ⟨m, hm⟩ := hruns
  obtain ⟨c1, a1, l1, ha1, hrel1, hrun⟩ := runNB_sim hcode keep g h m s _ c 1 allocs log hm hrel ha
  have hx := halt_sim hcode hrel1 rfl g h
  refine ⟨m, { c1 with cur := { c1.cur with ip := ((csize is : Nat) : Int) } }, hrel1.glb, hrel1.stk.1, ?_⟩
  have h1 : (run code keep (m + 1) allocs ⟨c, g, h⟩ log).1 =
      .halted ⟨{ c1 with cur := { c1.cur with ip := ((csize is : Nat) : Int) } }, g, h⟩ := by
    rw [hrun, run_succ]
    unfold XOk runX at hx
    simp only [hx]
  intro k
  exact run_halted_mono code keep (m + 1) allocs _ log _ h1 (by intro c hc; cases hc) k

/-- **VM bridge, failing runs.** If the fragment's (bounded) machine runs from `s` into a data error,
`VM.run` started in a corresponding configuration ends in a failed outcome, for every sufficient fuel. -/
theorem fails_failed (hcode : CodeRel is K n cs code) {s : F0.St SV} {c : Core} (hrel : Rel n s c)
    (hfails : FailsB stackSize vmSem cs is s)
    (keep : Nat) (allocs : Int) (log : Log) (g : GSt) (h : Spec.St) (ha : allocs ≤ 0) :
    ∃ (m : Nat) (e : Err) (at_ : Cfg), e ≠ Err.fuel ∧
      ∀ k, (run code keep (m + 1 + k) allocs ⟨c, g, h⟩ log).1 = .failed e at_ := by
  obtain ⟨b, ⟨m, hm⟩, herr⟩ := hfails
  obtain ⟨c1, a1, l1, ha1, hrel1, hrun⟩ := runNB_sim hcode keep g h m s _ c 1 allocs log hm hrel ha
  obtain ⟨e, hne, hx⟩ := err_sim hcode hrel1 herr g h
  refine ⟨m, e, ⟨c1, g, h⟩, hne, ?_⟩
  have h1 : (run code keep (m + 1) allocs ⟨c, g, h⟩ log).1 = .failed e ⟨c1, g, h⟩ := by
    rw [hrun, run_succ]
    unfold XFail runX at hx
    simp only [hx]
  intro k
  exact run_halted_mono code keep (m + 1) allocs _ log _ h1 (by intro c hc; cases hc) k

/-- The VM's initial core corresponds to the fragment's initial state. -/
theorem rel_init (globals : Array Value) (gl : Nat → SV) (hsz : globals.size = n)
    (hg : ∀ i, i < n → globals.getD i .undef = (gl i).1) :
    Rel n ⟨0, [], gl⟩ (initCore globals #[]) := by
  refine ⟨rfl, by simp [initCore], ⟨rfl, by simp [initCore], by simp [stackSize], ?_⟩, ⟨hsz, hg⟩⟩
  intro i hi
  simp at hi

end lift
end Tengo.Proofs.C01Bridge

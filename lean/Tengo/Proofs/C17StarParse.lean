import Tengo.Proofs.FormatParse
import Tengo.Model.FormatSpecStar
/-!
Helper lemmas for C17 (`*`, `[n]`, flag sets): the byte-level pieces of the model's directive parser
(`parseFlags`, `argNumber`, `parseWidth`, `parsePrec`, `parseAfterPrec`) on the printed pieces of a
structured directive (`FormatSpecStar.SDir`), each threading the argument cursor.
-/
namespace Tengo.Proofs.C17StarParse
open Tengo.Model.Format Tengo.Model.FormatSpec Tengo.Model.FormatSpecMulti Tengo.Model.FormatSpecStar Tengo.Proofs.FormatParse

/-! ### flags: any order, any repeats -/

theorem parseFlags_stop (t : Bytes) (ht : NonFlagHead t) (f : Fl) (k : Nat) : parseFlags t f k = (f, k) := by
  cases t with
  | nil => rfl
  | cons c t' =>
    obtain ⟨h1, h2, h3, h4, h5⟩ := ht c t' rfl
    simp [parseFlags, h1, h2, h3, h4, h5]

theorem isFlag_cases (c : UInt8) (h : isFlag c = true) : c = 35 ∨ c = 48 ∨ c = 43 ∨ c = 45 ∨ c = 32 := by
  simp only [isFlag, Bool.or_eq_true, beq_iff_eq] at h
  rcases h with (((h | h) | h) | h) | h <;> simp [h]

/-- The flag loop over any sequence of flag characters computes the flag SET (`0` is dropped when `-`
is in the set, whichever came first). -/
theorem parseFlags_list : ∀ (l t : Bytes) (f : Fl) (k : Nat), (∀ c ∈ l, isFlag c = true) → NonFlagHead t →
    (f.minus = true → f.zero = false) →
    parseFlags (l ++ t) f k =
      ({ f with plus := f.plus || hasFlag 43 l, minus := f.minus || hasFlag 45 l, sharp := f.sharp || hasFlag 35 l,
                space := f.space || hasFlag 32 l, zero := (f.zero || hasFlag 48 l) && !(f.minus || hasFlag 45 l) },
       k + l.length) := by
  intro l
  induction l with
  | nil =>
    intro t f k _ ht hinv
    rw [List.nil_append, parseFlags_stop t ht]
    cases f with
    | mk minus plus sharp space zero plusV sharpV widPresent precPresent wid prec =>
      simp only [hasFlag, Bool.or_false, List.length_nil, Nat.add_zero]
      cases minus <;> cases zero <;> simp_all
  | cons c l ih =>
    intro t f k hl ht hinv
    have hc := isFlag_cases c (hl c List.mem_cons_self)
    have hl' : ∀ x ∈ l, isFlag x = true := fun x hx => hl x (List.mem_cons_of_mem _ hx)
    cases f with
    | mk minus plus sharp space zero plusV sharpV widPresent precPresent wid prec =>
      simp only at hinv
      rcases hc with h | h | h | h | h <;> subst h <;>
        (simp only [List.cons_append, parseFlags]
         simp only [show ((48 : UInt8) = 35) = False by decide, show ((43 : UInt8) = 35) = False by decide,
           show ((45 : UInt8) = 35) = False by decide, show ((32 : UInt8) = 35) = False by decide,
           show ((43 : UInt8) = 48) = False by decide, show ((45 : UInt8) = 48) = False by decide,
           show ((32 : UInt8) = 48) = False by decide, show ((45 : UInt8) = 43) = False by decide,
           show ((32 : UInt8) = 43) = False by decide, show ((32 : UInt8) = 45) = False by decide, if_true, if_false]
         rw [ih t _ (k + 1) hl' ht (by cases minus <;> simp_all)]
         simp only [hasFlag, List.length_cons]
         cases minus <;> cases zero <;> simp_all <;> omega)

/-! ### `[n]` -/

theorem decimal_digits (n : Nat) : ∀ c ∈ decimal n, 48 ≤ c.toNat ∧ c.toNat ≤ 57 := by
  intro c hc
  unfold decimal digitsText at hc
  have hlt : ∀ d ∈ digitsRev 10 n, d < 10 := digitsRev_lt 10 (by omega) n n (Nat.le_refl _)
  simp only [List.mem_map, List.mem_reverse] at hc
  obtain ⟨d, hd, rfl⟩ := hc
  have hd10 := hlt d hd
  have := digitChar_toNat ⟨d, hd10⟩
  simp only at this
  omega

theorem findClose_digits : ∀ (l t : Bytes) (i : Nat), (∀ c ∈ l, c ≠ 93) → findClose (l ++ 93 :: t) i = some (i + l.length) := by
  intro l
  induction l with
  | nil => intro t i _; simp [findClose]
  | cons c l ih =>
    intro t i h
    have hc : c ≠ 93 := h c List.mem_cons_self
    simp only [List.cons_append, findClose, hc, if_false]
    rw [ih t (i + 1) (fun x hx => h x (List.mem_cons_of_mem _ hx))]
    simp only [List.length_cons]; congr 1; omega

theorem parseArgNumber_idx (n : Nat) (hn : n ≤ 1000000) (t : Bytes) :
    parseArgNumber (91 :: (decimal n ++ 93 :: t)) = ((n : Int) - 1, (decimal n).length + 2, true) := by
  have hpos := decimal_length_pos n
  have hno : ∀ c ∈ decimal n, c ≠ 93 := by
    intro c hc h; subst h
    have := decimal_digits n 93 hc
    simp at this
  have hnum : parsenum (decimal n) = (n, true, (decimal n).length) := by
    have := parsenum_decimal n hn [] (by intro c t' h; cases h)
    simpa using this
  unfold parseArgNumber
  have hlen : ¬ ((91 :: (decimal n ++ 93 :: t)).length < 3) := by simp; omega
  simp only [hlen, if_false, List.drop_succ_cons, List.drop_zero]
  rw [findClose_digits (decimal n) t 1 hno]
  simp only []
  have htake : List.take (1 + (decimal n).length - 1) (decimal n ++ 93 :: t) = decimal n := by
    rw [show 1 + (decimal n).length - 1 = (decimal n).length by omega, List.take_left]
  rw [htake, hnum]
  have hk : ((decimal n).length != 1 + (decimal n).length - 1) = false := by simp
  simp only [Bool.not_true, Bool.false_or, hk, Bool.false_eq_true, if_false]
  congr 2; omega

/-- A cursor as the parser's registers. -/
def psOf (c : Cur) (ai : Bool) : PS := { argNum := c.argNum, reordered := c.reordered, good := c.good, afterIndex := ai }

theorem idxText_append (n : Nat) (t : Bytes) : idxText (some n) ++ t = 91 :: (decimal n ++ 93 :: t) := by
  simp [idxText]

theorem idxText_length (n : Nat) : (idxText (some n)).length = (decimal n).length + 2 := by
  simp [idxText]

/-- `p.argNumber` on a printed index (or on no index): the cursor moves as `useIdx` says. -/
theorem argNumber_idxText (c : Cur) (ai : Bool) (i : Option Nat) (t : Bytes) (nargs : Nat) (hi : IdxOk i)
    (ht : i = none → ∀ t', t ≠ 91 :: t') :
    argNumber (psOf c ai) (idxText i ++ t) nargs = (psOf (useIdx nargs c i) i.isSome, (idxText i).length) := by
  cases i with
  | none =>
    simp only [idxText, List.nil_append, useIdx, Option.isSome_none, List.length_nil]
    unfold argNumber
    split
    · rename_i t' ; exact absurd rfl (ht rfl t')
    · rfl
  | some n =>
    have hn : n ≤ 1000000 := hi
    rw [idxText_append, idxText_length]
    simp only [argNumber, parseArgNumber_idx n hn t]
    have h3 : ((n : Int) - 1).toNat = n - 1 := by omega
    have hcond : (true && decide ((0 : Int) ≤ (n : Int) - 1) && decide ((n : Int) - 1 < (nargs : Int))) =
        decide (1 ≤ n ∧ n ≤ nargs) := by
      rw [Bool.eq_iff_iff]; simp only [Bool.and_eq_true, decide_eq_true_eq, true_and]; omega
    rw [hcond, h3]
    by_cases h : 1 ≤ n ∧ n ≤ nargs
    · simp only [h, and_self, decide_true, if_true, useIdx, psOf, Option.isSome_some]
    · simp only [h, decide_false, Bool.false_eq_true, if_false, useIdx, psOf, Option.isSome_some]

/-! ### `*` operands -/

/-- `ToInt64` of the arguments, as far as the int operands go. -/
def IntsRel (ints : List (Option Int)) (args : List Arg) : Prop :=
  ints.length = args.length ∧ ∀ (k : Nat) (v : BitVec 64), args[k]? = some (Arg.int v) → ints[k]? = some (some v.toInt)

theorem intFromArg_star (ints : List (Option Int)) (args : List Arg) (k : Nat) (hr : IntsRel ints args)
    (hk : StarArgOk args k) :
    intFromArg ints k = (((starVal args k).1).getD 0, ((starVal args k).1).isSome, (starVal args k).2) := by
  rcases hk with h | ⟨v, h⟩
  · have hge : args.length ≤ k := by
      rcases Nat.lt_or_ge k args.length with h' | h'
      · rw [List.getElem?_eq_getElem h'] at h; cases h
      · exact h'
    have : ints[k]? = none := List.getElem?_eq_none (by have := hr.1; omega)
    simp [intFromArg, starVal, this, h]
  · have := hr.2 k v h
    simp only [intFromArg, starVal, this, h]
    by_cases hb : v.toInt > 1000000 ∨ v.toInt < -1000000
    · simp [hb]
    · simp [hb]

/-! ### what may follow a width or a precision -/

/-- The verb bytes of the fragment. -/
def KV (c : UInt8) : Prop :=
  c = 100 ∨ c = 98 ∨ c = 111 ∨ c = 79 ∨ c = 120 ∨ c = 88 ∨ c = 99 ∨ c = 115 ∨ c = 116 ∨ c = 37

def HeadP (P : UInt8 → Prop) (t : Bytes) : Prop := ∀ c t', t = c :: t' → P c

theorem knownVerb_byte (x : Nat) (h : isKnownVerb x = true) : KV x.toUInt8 ∧ x.toUInt8.toNat = x := by
  simp only [isKnownVerb, isIntVerb, Bool.or_eq_true, beq_iff_eq] at h
  unfold KV
  rcases h with ((((((((h | h) | h) | h) | h) | h) | h) | h) | h) | h <;> subst h <;> decide

theorem KV_facts (c : UInt8) (h : KV c) :
    c.toNat < 128 ∧ c ≠ 46 ∧ c ≠ 91 ∧ c ≠ 42 ∧ ¬ (48 ≤ c.toNat ∧ c.toNat ≤ 57) ∧
      (c ≠ 35 ∧ c ≠ 48 ∧ c ≠ 43 ∧ c ≠ 45 ∧ c ≠ 32) := by
  unfold KV at h
  rcases h with h | h | h | h | h | h | h | h | h | h <;> subst h <;> decide

theorem headP_verb (v : Option Nat) (rest : Bytes) (hv : ∀ x, v = some x → isKnownVerb x = true) (hend : v = none → rest = []) :
    HeadP KV (verbText v ++ rest) := by
  intro c t' h
  cases v with
  | none => rw [hend rfl] at h; cases h
  | some x =>
    simp only [verbText, List.cons_append, List.nil_append] at h
    injection h with h1 _
    rw [← h1]; exact (knownVerb_byte x (hv x rfl)).1

theorem headP_idx (vi : Option Nat) (t : Bytes) (ht : HeadP KV t) : HeadP (fun x => x = 91 ∨ KV x) (idxText vi ++ t) := by
  intro c t' h
  cases vi with
  | none => exact Or.inr (ht c t' h)
  | some n => rw [idxText_append] at h; injection h with h1 _; exact Or.inl h1.symm

theorem headP_prec (p : SNum) (t : Bytes) (ht : HeadP (fun x => x = 91 ∨ KV x) t) :
    HeadP (fun x => x = 46 ∨ x = 91 ∨ KV x) (Model.FormatSpecStar.precText p ++ t) := by
  intro c t' h
  cases p with
  | none => exact Or.inr (ht c t' h)
  | lit n => simp only [Model.FormatSpecStar.precText, List.cons_append] at h; injection h with h1 _; exact Or.inl h1.symm
  | star i => simp only [Model.FormatSpecStar.precText, List.cons_append] at h; injection h with h1 _; exact Or.inl h1.symm
  | dot z n => simp only [Model.FormatSpecStar.precText, List.cons_append] at h; injection h with h1 _; exact Or.inl h1.symm
  | ilit i n => exact Or.inr (ht c t' h)
  | idx i => exact Or.inr (ht c t' h)

/-! ### the verb, with its optional index -/

theorem parseAfterPrec_show (ints : List (Option Int)) (f : Fl) (c : Cur) (bw bp : Bool) (k : Nat) (vi v : Option Nat)
    (rest : Bytes) (hvi : IdxOk vi) (hv : ∀ x, v = some x → isKnownVerb x = true) (hend : v = none → rest = []) :
    parseAfterPrec ints f (psOf c false) bw bp k (idxText vi ++ (verbText v ++ rest)) =
      { n := k + ((idxText vi).length + (verbText v).length), f := f, badWidth := bw, badPrec := bp, verb := v,
        argNum := (useIdx ints.length c vi).argNum, good := (useIdx ints.length c vi).good,
        reordered := (useIdx ints.length c vi).reordered } := by
  have hh := headP_verb v rest hv hend
  have hne : vi = none → ∀ t', verbText v ++ rest ≠ 91 :: t' := by
    intro _ t' h
    exact (KV_facts _ (hh 91 t' h)).2.2.1 rfl
  unfold parseAfterPrec
  have hai : (psOf c false).afterIndex = false := rfl
  simp only [hai, Bool.not_false, if_true]
  rw [argNumber_idxText c false vi _ ints.length hvi hne]
  simp only [List.drop_left]
  cases v with
  | none =>
    rw [hend rfl]
    simp [parseVerb, verbText, psOf]
  | some x =>
    obtain ⟨hk, hx⟩ := knownVerb_byte x (hv x rfl)
    have h128 := (KV_facts _ hk).1
    simp only [verbText, List.cons_append, List.nil_append]
    rw [parseVerb_ascii _ _ _ _ _ _ _ h128, hx]
    simp [psOf, Nat.add_assoc]

/-! ### `flOf` under the width / precision updates the parser makes -/

theorem flOf_prec_some (d : GDir) (p : Nat) : ({ flOf d with prec := p, precPresent := true } : Fl) = flOf { d with prec := some p } := by
  simp [flOf]

theorem flOf_prec_none (d : GDir) (hd : d.prec = none) : ({ flOf d with prec := 0, precPresent := false } : Fl) = flOf d := by
  simp [flOf, hd]

theorem flOf_wid_some (d : GDir) (w : Nat) : ({ flOf d with wid := w, widPresent := true } : Fl) = flOf { d with width := some w } := by
  simp [flOf]

theorem flOf_wid_none (d : GDir) (hd : d.width = none) : ({ flOf d with wid := 0, widPresent := false } : Fl) = flOf d := by
  simp [flOf, hd]

theorem flOf_wid_neg (d : GDir) (w : Nat) :
    ({ ({ flOf d with wid := w, widPresent := true } : Fl) with minus := true, zero := false } : Fl) =
      flOf { d with width := some w, minus := d.minus || true } := by
  simp [flOf]

/-! ### precision -/

theorem parsePrec_none (ints : List (Option Int)) (f : Fl) (ps : PS) (t : Bytes) (ht : ∀ t', t ≠ 46 :: t') :
    parsePrec ints f ps t = (f, ps, false, 0) := by
  unfold parsePrec
  split
  · rename_i c rest; exact absurd rfl (ht (c :: rest))
  · rfl

theorem parsePrec_star (ints : List (Option Int)) (f : Fl) (c : Cur) (i : Option Nat) (t : Bytes) (hi : IdxOk i) :
    parsePrec ints f (psOf c false) (46 :: (idxText i ++ 42 :: t)) =
      ({ f with prec := if (intFromArg ints (useIdx ints.length c i).argNum).2.1 &&
                           decide (0 ≤ (intFromArg ints (useIdx ints.length c i).argNum).1)
                        then (intFromArg ints (useIdx ints.length c i).argNum).1.toNat else 0,
                precPresent := (intFromArg ints (useIdx ints.length c i).argNum).2.1 &&
                           decide (0 ≤ (intFromArg ints (useIdx ints.length c i).argNum).1) },
       psOf { useIdx ints.length c i with argNum := (intFromArg ints (useIdx ints.length c i).argNum).2.2 } false,
       !((intFromArg ints (useIdx ints.length c i).argNum).2.1 &&
                           decide (0 ≤ (intFromArg ints (useIdx ints.length c i).argNum).1)),
       1 + (idxText i).length + 1) := by
  have hne : i = none → ∀ t', (42 :: t : Bytes) ≠ 91 :: t' := by
    intro _ t' h; injection h with h1 _; exact absurd h1 (by decide)
  obtain ⟨c0, r0, hcr⟩ : ∃ c0 r0, idxText i ++ 42 :: t = c0 :: r0 := by
    cases i with
    | none => exact ⟨42, t, rfl⟩
    | some n => exact ⟨91, _, idxText_append n _⟩
  rw [hcr]
  unfold parsePrec
  simp only []
  rw [← hcr]
  have hai : (psOf c false).afterIndex = false := rfl
  simp only [hai, Bool.false_eq_true, if_false]
  rw [argNumber_idxText c false i _ ints.length hi hne]
  simp only [List.drop_left]
  rfl

theorem parsePrec_lit (ints : List (Option Int)) (f : Fl) (c : Cur) (p : Nat) (t : Bytes) (hp : p ≤ 1000000)
    (hND : NonDigitHead t) :
    parsePrec ints f (psOf c false) (46 :: (decimal p ++ t)) =
      ({ f with prec := p, precPresent := true }, psOf c false, false, 1 + (decimal p).length) := by
  obtain ⟨c0, cs, hdec, hc1, hc2⟩ := decimal_head p
  have hnum := parsenum_decimal p hp t hND
  have hc91 : c0 ≠ 91 := by intro h; subst h; simp at hc2
  have hc42 : c0 ≠ 42 := by intro h; subst h; simp at hc1
  rw [hdec] at hnum ⊢
  simp only [List.cons_append] at hnum ⊢
  unfold parsePrec
  have hai : (psOf c false).afterIndex = false := rfl
  simp only [hai, Bool.false_eq_true, if_false]
  rw [argNumber_plain (psOf c false) c0 _ _ hc91]
  simp only [List.drop_zero]
  split
  · rename_i heq; cases heq; exact absurd rfl hc42
  · rw [hnum]; simp [psOf]

/-! ### a precision with leading zeros, or without a number -/

theorem parsenumGo_zeros (total : Nat) (r : Bytes) : ∀ (z : Nat) (isnum : Bool) (k : Nat),
    parsenumGo total (List.replicate z 48 ++ r) 0 isnum k = parsenumGo total r 0 (isnum || decide (0 < z)) (k + z) := by
  intro z
  induction z with
  | zero => intro isnum k; simp
  | succ z ih =>
    intro isnum k
    have hd : 48 ≤ (48 : UInt8).toNat ∧ (48 : UInt8).toNat ≤ 57 := by decide
    have hz : ¬ ((0 : Nat) > 1000000) := by omega
    simp only [List.replicate_succ, List.cons_append, parsenumGo, hd, and_self, if_true, hz, if_false]
    have h0 : 0 * 10 + ((48 : UInt8).toNat - 48) = 0 := by decide
    rw [h0, ih true (k + 1)]
    have hk : k + 1 + z = k + (z + 1) := by omega
    simp [hk]

theorem parsenumGo_decimal (total n : Nat) (hn : n ≤ 1000000) (tail : Bytes) (ht : NonDigitHead tail) (isnum : Bool) (k : Nat) :
    parsenumGo total (decimal n ++ tail) 0 isnum k = (n, true, k + (decimal n).length) := by
  unfold decimal digitsText
  have hlt : ∀ d ∈ digitsRev 10 n, d < 10 := digitsRev_lt 10 (by omega) n n (Nat.le_refl _)
  have hev := evalRev_digitsRev 10 n n (Nat.le_refl _)
  rw [parsenumGo_digits _ tail (digitsRev 10 n) hlt 0 isnum k (by rw [hev]; omega)]
  rw [parsenumGo_stop _ tail ht]
  have hne := digitsRev_ne_nil 10 n
  simp only [Nat.zero_mul, Nat.zero_add, hev, List.length_map, List.length_reverse]
  cases h : digitsRev 10 n with
  | nil => exact absurd h hne
  | cons a b => simp

theorem parsenum_dot (z : Nat) (n : Option Nat) (t : Bytes) (hn : ∀ m, n = some m → 1 ≤ m ∧ m ≤ 1000000) (hND : NonDigitHead t) :
    parsenum (List.replicate z 48 ++ (numText n ++ t)) = (n.getD 0, decide (0 < z) || n.isSome, z + (numText n).length) := by
  unfold parsenum
  rw [parsenumGo_zeros]
  cases n with
  | none =>
    simp [numText, parsenumGo_stop _ t hND]
  | some m =>
    simp [numText, parsenumGo_decimal _ m (hn m rfl).2 t hND]

theorem parsePrec_dot (ints : List (Option Int)) (f : Fl) (c : Cur) (z : Nat) (n : Option Nat) (t : Bytes)
    (hn : ∀ m, n = some m → 1 ≤ m ∧ m ≤ 1000000) (hND : NonDigitHead t)
    (hne : z = 0 → n = none → ∃ c0 r0, t = c0 :: r0 ∧ KV c0) :
    parsePrec ints f (psOf c false) (46 :: (List.replicate z 48 ++ (numText n ++ t))) =
      ({ f with prec := n.getD 0, precPresent := true }, psOf c false, false, 1 + (z + (numText n).length)) := by
  obtain ⟨c0, r0, hX, h91', h42'⟩ : ∃ c0 r0, List.replicate z 48 ++ (numText n ++ t) = c0 :: r0 ∧ c0 ≠ 91 ∧ c0 ≠ 42 := by
    cases z with
    | succ z => exact ⟨48, List.replicate z 48 ++ (numText n ++ t), by simp [List.replicate_succ], by decide, by decide⟩
    | zero =>
      cases n with
      | some m =>
        obtain ⟨c0, cs, hdec, hc1, hc2⟩ := decimal_head m
        refine ⟨c0, cs ++ t, by simp [numText, hdec], ?_, ?_⟩
        · intro h; subst h; simp at hc2
        · intro h; subst h; simp at hc1
      | none =>
        obtain ⟨c0, r0, ht, hk⟩ := hne rfl rfl
        exact ⟨c0, r0, by simp [numText, ht], (KV_facts c0 hk).2.2.1, (KV_facts c0 hk).2.2.2.1⟩
  have hnum := parsenum_dot z n t hn hND
  rw [hX] at hnum ⊢
  unfold parsePrec
  have hai : (psOf c false).afterIndex = false := rfl
  simp only [hai, Bool.false_eq_true, if_false]
  rw [argNumber_plain (psOf c false) c0 _ _ h91']
  simp only [List.drop_zero]
  split
  · rename_i heq; cases heq; exact absurd rfl h42'
  · rw [hnum]
    cases n <;> simp [psOf]

/-- The precision stage, whatever its form: the parser computes `precStage`. -/
theorem parseAfterWidth_show (ints : List (Option Int)) (args : List Arg) (hr : IntsRel ints args) (d : GDir)
    (hd : d.prec = none) (c : Cur) (bw : Bool) (k : Nat) (p : SNum) (t : Bytes) (hp : PrecOk args c p)
    (ht : HeadP (fun x => x = 91 ∨ KV x) t) (hdot : p = .dot 0 none → HeadP KV t ∧ t ≠ []) :
    parseAfterWidth ints (flOf d) (psOf c false) bw k (Model.FormatSpecStar.precText p ++ t) =
      parseAfterPrec ints (flOf (precStage args d c p).1) (psOf (precStage args d c p).2.2 false) bw
        (precStage args d c p).2.1 (k + (Model.FormatSpecStar.precText p).length) t := by
  have hND : NonDigitHead t := by
    intro x t' h
    rcases ht x t' h with h1 | h1
    · subst h1; decide
    · exact (KV_facts x h1).2.2.2.2.1
  unfold parseAfterWidth
  cases p with
  | none =>
    have h46 : ∀ t', t ≠ 46 :: t' := by
      intro t' h
      rcases ht 46 t' h with h1 | h1
      · exact absurd h1 (by decide)
      · exact (KV_facts 46 h1).2.1 rfl
    simp only [Model.FormatSpecStar.precText, List.nil_append, parsePrec_none ints _ _ t h46, precStage, List.drop_zero, Nat.add_zero, List.length_nil]
  | lit n =>
    have hn : n ≤ 1000000 := hp
    simp only [Model.FormatSpecStar.precText, List.cons_append, parsePrec_lit ints _ c n t hn hND, precStage, flOf_prec_some]
    have : List.drop (1 + (decimal n).length) (46 :: (decimal n ++ t)) = t := by
      rw [show 1 + (decimal n).length = (decimal n).length + 1 by omega, List.drop_succ_cons, List.drop_left]
    rw [this]
    simp only [List.length_cons]
    congr 1; omega
  | star i =>
    obtain ⟨hi, hs⟩ := hp
    have hnorm : idxText i ++ [42] ++ t = idxText i ++ 42 :: t := by simp
    simp only [Model.FormatSpecStar.precText, List.cons_append, hnorm, parsePrec_star ints _ c i t hi]
    have hdrop : List.drop (1 + (idxText i).length + 1) (46 :: (idxText i ++ 42 :: t)) = t := by
      rw [show 1 + (idxText i).length + 1 = ((idxText i).length + 1) + 1 by omega, List.drop_succ_cons,
        show (idxText i ++ 42 :: t) = (idxText i ++ [42]) ++ t by simp,
        show (idxText i).length + 1 = (idxText i ++ [42]).length by simp, List.drop_left]
    rw [hdrop, hr.1, intFromArg_star ints args _ hr hs]
    have hlen : k + (1 + (idxText i).length + 1) = k + (46 :: (idxText i ++ [42])).length := by simp; omega
    rw [hlen]
    simp only [precStage]
    cases hsv : (starVal args (useIdx args.length c i).argNum).1 with
    | none =>
      simp only [Option.isSome_none, Bool.false_and, Bool.false_eq_true, if_false, Bool.not_false, flOf_prec_none d hd]
    | some n =>
      by_cases h0 : 0 ≤ n
      · simp only [Option.isSome_some, Option.getD_some, Bool.true_and, h0, decide_true, if_true, Bool.not_true, flOf_prec_some]
      · simp only [Option.isSome_some, Option.getD_some, Bool.true_and, h0, decide_false, Bool.false_eq_true, if_false,
          Bool.not_false, flOf_prec_none d hd]
  | dot z n =>
    have hn : ∀ m, n = some m → 1 ≤ m ∧ m ≤ 1000000 := hp
    have hne : z = 0 → n = none → ∃ c0 r0, t = c0 :: r0 ∧ KV c0 := by
      intro hz hnn; subst hz; subst hnn
      obtain ⟨hk, hnil⟩ := hdot rfl
      cases t with
      | nil => exact absurd rfl hnil
      | cons c0 r0 => exact ⟨c0, r0, rfl, hk c0 r0 rfl⟩
    have hnorm : List.replicate z 48 ++ numText n ++ t = List.replicate z 48 ++ (numText n ++ t) := by simp
    simp only [Model.FormatSpecStar.precText, List.cons_append, hnorm, parsePrec_dot ints _ c z n t hn hND hne, precStage,
      flOf_prec_some]
    have hdrop : List.drop (1 + (z + (numText n).length)) (46 :: (List.replicate z 48 ++ (numText n ++ t))) = t := by
      rw [show 1 + (z + (numText n).length) = (List.replicate z 48 ++ numText n).length + 1 by simp; omega,
        List.drop_succ_cons, ← List.append_assoc, List.drop_left]
    rw [hdrop]
    simp only [List.length_cons, List.length_append, List.length_replicate]
    congr 1; omega
  | ilit i n => exact hp.elim
  | idx i => exact hp.elim

/-! ### `afterIndex` at a precision: "%[3].2d" -/

theorem argNumber_ai (c : Cur) (r : Bytes) (n : Nat) : argNumber (psOf c true) r n = argNumber (psOf c false) r n := by
  unfold argNumber
  split
  · split <;> rfl
  · rfl

/-- A precision right after an index: the directive is bad; otherwise as without the index. -/
theorem parsePrec_ai (ints : List (Option Int)) (f : Fl) (c : Cur) (c0 : UInt8) (r0 : Bytes) :
    parsePrec ints f (psOf c true) (46 :: c0 :: r0) = parsePrec ints f (psOf { c with good := false } false) (46 :: c0 :: r0) := by
  unfold parsePrec
  have h1 : (psOf c true).afterIndex = true := rfl
  have h2 : (psOf { c with good := false } false).afterIndex = false := rfl
  simp only [h1, h2, if_true, Bool.false_eq_true, if_false]
  have h3 : ({ argNum := (psOf c true).argNum, reordered := (psOf c true).reordered, good := false, afterIndex := true } : PS) =
      psOf { c with good := false } true := rfl
  rw [h3, argNumber_ai]

theorem parseAfterWidth_ai (ints : List (Option Int)) (f : Fl) (c : Cur) (bw : Bool) (k : Nat) (c0 : UInt8) (r0 : Bytes) :
    parseAfterWidth ints f (psOf c true) bw k (46 :: c0 :: r0) =
      parseAfterWidth ints f (psOf { c with good := false } false) bw k (46 :: c0 :: r0) := by
  unfold parseAfterWidth
  rw [parsePrec_ai]

end Tengo.Proofs.C17StarParse

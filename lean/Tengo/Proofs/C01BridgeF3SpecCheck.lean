import Tengo.Proofs.C01BridgeF2SpecCheck
import Tengo.Proofs.C01BridgeF3CompDemo
/-!
C01 bridge for fragment F3, reference-interpreter side: the static check of the reference semantics
(`Spec.checkProgram`) accepts every embedded F3 program (`checkProgram_fragment3`): the globals are pre-declared
inputs, the parameters live in the function table of the literal, every top-level `:=` of a function body defines
a name no table knows yet, `return` occurs only inside function literals and `break` / `continue` only inside
loops of the current function.

The invariant of the checker's state (`Inv`) is stated through membership of names in the tables (`hasName`), the
shape of the states through `bodySt` (the block table of a function body) and `fnSt` (the function table).
-/
set_option linter.unusedVariables false
set_option linter.unusedSimpArgs false
namespace Tengo.Proofs.C01BridgeF3Spec
open Tengo.Model
open Tengo.Model.Spec (Expr Stmt CSt Tab checkExpr checkStmt checkStmts checkBlock checkAssign checkOptStmt checkExprs)
open Tengo.Model.F3 (Ex Exs Stm Stms FnDef Prog)
open Tengo.Proofs.C01Bridge
open Tengo.Proofs.C01BridgeF3Comp

/-! ### names in the tables -/

/-- Some table knows the name. -/
def hasName (nm : String) (tabs : List Tab) : Bool := tabs.any fun t => t.names.contains nm

theorem go_none (nm : String) : ∀ (tabs : List Tab) (d : Nat), hasName nm tabs = false →
    Spec.resolve.go nm tabs d = none
  | [], d, h => rfl
  | t :: rest, d, h => by
    simp only [hasName, List.any_cons, Bool.or_eq_false_iff] at h
    simp only [Spec.resolve.go, h.1, Bool.false_eq_true, if_false]
    exact go_none nm rest (d + 1) h.2

theorem go_some (nm : String) : ∀ (tabs : List Tab) (d : Nat), hasName nm tabs = true →
    ∃ k, Spec.resolve.go nm tabs d = some k
  | [], d, h => by simp [hasName] at h
  | t :: rest, d, h => by
    simp only [hasName, List.any_cons, Bool.or_eq_true] at h
    simp only [Spec.resolve.go]
    by_cases hc : t.names.contains nm = true
    · exact ⟨d, by simp only [hc, if_true]⟩
    · rcases h with h | h
      · exact absurd h hc
      · obtain ⟨k, hk⟩ := go_some nm rest (d + 1) h
        exact ⟨k, by rw [if_neg hc, hk]⟩

theorem resolve_run (nm : String) (s : CSt) : Spec.resolve nm s = .ok (Spec.resolve.go nm s.tabs 0, s) := rfl

/-- The invariant of the checker's state: the globals resolve and are inputs, the local names below `m` resolve,
no table knows a local name from `m` on. -/
structure Inv (names lnames : Nat → String) (n m : Nat) (s : CSt) : Prop where
  glob : ∀ i, i < n → hasName (names i) s.tabs = true
  loc : ∀ i, i < m → hasName (lnames i) s.tabs = true
  fresh : ∀ i, m ≤ i → hasName (lnames i) s.tabs = false
  inputs : ∀ i, i < n → s.inputs.contains (names i) = true
  nb : ∀ i, Spec.builtinNames.contains (lnames i) = false

theorem hasName_pushed (nm : String) (s : CSt) : hasName nm (pushed s).tabs = hasName nm s.tabs := by
  simp [hasName, pushed, blkTab]

section
variable {names lnames : Nat → String} {ctab : Nat → F0.Const} {n m : Nat}

theorem Inv.pushed {s : CSt} (h : Inv names lnames n m s) : Inv names lnames n m (pushed s) :=
  ⟨fun i hi => by rw [hasName_pushed]; exact h.glob i hi, fun i hi => by rw [hasName_pushed]; exact h.loc i hi,
   fun i hi => by rw [hasName_pushed]; exact h.fresh i hi, h.inputs, h.nb⟩

theorem Inv.looped {s : CSt} (h : Inv names lnames n m s) : Inv names lnames n m (looped s) :=
  ⟨h.glob, h.loc, h.fresh, h.inputs, h.nb⟩

end

/-! ### expressions -/

section
variable {names lnames : Nat → String} {ctab : Nat → F0.Const} {n m : Nat} {isFn : Nat → Bool}

theorem ident_ok (d : Nat) (nm : String) (s : CSt) (h : hasName nm s.tabs = true) :
    KId (checkExpr (d + 1) (.ident nm)) s := by
  obtain ⟨k, hk⟩ := go_some nm s.tabs 0 h
  simp only [checkExpr]
  unfold KId
  rw [k_bind _ _ _ _ _ (resolve_run nm s), hk]
  rfl

mutual
  theorem checkExpr_ok3 : ∀ (e : Ex) (d k : Nat) (s : CSt), budE3 e ≤ d → Inv names lnames n m s →
      wfE3 isFn n m k e = true → KId (checkExpr d (toAstE3 names lnames ctab e)) s
    | .lit j, d, k, s, hd, hg, hw => by
      simp only [budE3] at hd
      obtain ⟨d, rfl⟩ : ∃ d', d = d' + 1 := ⟨d - 1, by omega⟩
      simp only [toAstE3]
      cases ctab j <;> simp only [litExpr, checkExpr] <;> exact KId.pure s
    | .tru, d, k, s, hd, hg, hw | .fls, d, k, s, hd, hg, hw | .undef, d, k, s, hd, hg, hw => by
      simp only [budE3] at hd
      obtain ⟨d, rfl⟩ : ∃ d', d = d' + 1 := ⟨d - 1, by omega⟩
      simp only [toAstE3, checkExpr]; exact KId.pure s
    | .glob i, d, k, s, hd, hg, hw => by
      simp only [budE3] at hd
      obtain ⟨d, rfl⟩ : ∃ d', d = d' + 1 := ⟨d - 1, by omega⟩
      simp only [wfE3, decide_eq_true_eq] at hw
      simp only [toAstE3]
      exact ident_ok d _ s (hg.glob i hw)
    | .loc i, d, k, s, hd, hg, hw => by
      simp only [budE3] at hd
      obtain ⟨d, rfl⟩ : ∃ d', d = d' + 1 := ⟨d - 1, by omega⟩
      simp only [wfE3, decide_eq_true_eq] at hw
      simp only [toAstE3]
      exact ident_ok d _ s (hg.loc i hw)
    | .bin tok l r, d, k, s, hd, hg, hw => by
      simp only [budE3] at hd
      obtain ⟨d, rfl⟩ : ∃ d', d = d' + 1 := ⟨d - 1, by omega⟩
      simp only [wfE3, Bool.and_eq_true] at hw
      obtain ⟨⟨ht, hwl⟩, hwr⟩ := hw
      simp only [toAstE3, checkExpr, binaryToks_tok ht, if_true]
      exact (checkExpr_ok3 l d _ s (by omega) hg hwl).seq ((checkExpr_ok3 r d _ s (by omega) hg hwr).seq (KId.pure s))
    | .eq l r, d, k, s, hd, hg, hw | .ne l r, d, k, s, hd, hg, hw | .land l r, d, k, s, hd, hg, hw
    | .lor l r, d, k, s, hd, hg, hw => by
      simp only [budE3] at hd
      obtain ⟨d, rfl⟩ : ∃ d', d = d' + 1 := ⟨d - 1, by omega⟩
      simp only [wfE3, Bool.and_eq_true] at hw
      obtain ⟨hwl, hwr⟩ := hw
      simp only [toAstE3, checkExpr]
      exact (checkExpr_ok3 l d _ s (by omega) hg hwl).seq ((checkExpr_ok3 r d _ s (by omega) hg hwr).seq (KId.pure s))
    | .neg e, d, k, s, hd, hg, hw | .bnot e, d, k, s, hd, hg, hw | .lnot e, d, k, s, hd, hg, hw
    | .plus e, d, k, s, hd, hg, hw => by
      simp only [budE3] at hd
      obtain ⟨d, rfl⟩ : ∃ d', d = d' + 1 := ⟨d - 1, by omega⟩
      simp only [wfE3] at hw
      simp only [toAstE3, checkExpr]
      exact (checkExpr_ok3 e d _ s (by omega) hg hw).seq (KId.pure s)
    | .cond c t f, d, k, s, hd, hg, hw => by
      simp only [budE3] at hd
      obtain ⟨d, rfl⟩ : ∃ d', d = d' + 1 := ⟨d - 1, by omega⟩
      simp only [wfE3, Bool.and_eq_true] at hw
      obtain ⟨⟨hwc, hwt⟩, hwf⟩ := hw
      simp only [toAstE3, checkExpr]
      exact (checkExpr_ok3 c d _ s (by omega) hg hwc).seq ((checkExpr_ok3 t d _ s (by omega) hg hwt).seq
        (checkExpr_ok3 f d _ s (by omega) hg hwf))
    | .call f args, d, k, s, hd, hg, hw => by
      simp only [budE3] at hd
      obtain ⟨d, rfl⟩ : ∃ d', d = d' + 1 := ⟨d - 1, by omega⟩
      simp only [wfE3, Bool.and_eq_true] at hw
      obtain ⟨⟨_, hwf⟩, hwa⟩ := hw
      simp only [toAstE3, checkExpr]
      exact (checkExpr_ok3 f d _ s (by omega) hg hwf).seq (checkExprs_ok3 args d _ s (by omega) hg hwa)
  theorem checkExprs_ok3 : ∀ (es : Exs) (d k : Nat) (s : CSt), budEs3 es ≤ d → Inv names lnames n m s →
      wfEs3 isFn n m k es = true → KId (checkExprs d (toAstEs3 names lnames ctab es)) s
    | .nil, d, k, s, hd, hg, hw => by
      simp only [budEs3] at hd
      obtain ⟨d, rfl⟩ : ∃ d', d = d' + 1 := ⟨d - 1, by omega⟩
      simp only [toAstEs3, checkExprs]; exact KId.pure s
    | .cons e es, d, k, s, hd, hg, hw => by
      simp only [budEs3] at hd
      obtain ⟨d, rfl⟩ : ∃ d', d = d' + 1 := ⟨d - 1, by omega⟩
      simp only [wfEs3, Bool.and_eq_true] at hw
      simp only [toAstEs3, checkExprs]
      exact (checkExpr_ok3 e d _ s (by omega) hg hw.1).seq (checkExprs_ok3 es d _ s (by omega) hg hw.2)
end

end

/-! ### assignments, definitions, return -/

theorem checkAssign_ok3 (d : Nat) (nm : String) (r : Expr) (s : CSt) (hn : hasName nm s.tabs = true)
    (hsb : (Spec.builtinNames.contains nm && !s.inputs.contains nm) = false)
    (hre : KId (checkExpr (d + 1) r) s) :
    KId (checkAssign (d + 1 + 1) "Assign" [.ident nm] [r]) s := by
  obtain ⟨kk, hk⟩ := go_some nm s.tabs 0 hn
  rw [checkAssign_staged]
  unfold KId chkAssignStaged
  rw [k_bind _ _ _ _ _ (resolve_run nm s), hk]
  rw [k_bind _ _ s s s rfl]
  simp only [hsb, Bool.false_and, Option.isNone_some, Bool.false_eq_true, if_false]
  rw [k_bind _ _ _ _ _ hre]
  rw [Spec.checkExprs]
  rfl

/-- Is the expression a function literal (the test of `checkAssign`)? -/
def isFuncE (r : Expr) : Bool := match r with | .func .. => true | _ => false

/-- `checkAssign` on `name := r`, with the decided tests removed. -/
def chkDefineStaged (d : Nat) (nm : String) (r : Expr) (isFunc : Bool) : Spec.CM Unit := do
  let res ← Spec.resolve nm
  let st0 ← get
  let stillBuiltin : Bool :=
    Spec.builtinNames.contains nm && !st0.inputs.contains nm && !st0.shadowed.contains nm
  let shadowsBuiltin : Bool := st0.tabs.length == 1 && stillBuiltin
  if shadowsBuiltin then modify fun s => { s with shadowed := nm :: s.shadowed }
  if res == some 0 && !shadowsBuiltin then Spec.cerr s!"'{nm}' redeclared in this block"
  if isFunc then Spec.define nm
  checkExpr d r
  if !isFunc then Spec.define nm
  checkExprs d []
  pure ()

theorem checkDefine_staged (d : Nat) (nm : String) (r : Expr) :
    checkAssign (d + 1) "Define" [.ident nm] [r] = chkDefineStaged d nm r (isFuncE r) := rfl

/-- The state after `define nm`. -/
def defined (nm : String) (s : CSt) : CSt :=
  match s.tabs with
  | t :: rest => { s with tabs := { t with names := nm :: t.names } :: rest }
  | [] => s

theorem kto_define (nm : String) (s : CSt) : KTo (Spec.define nm) s (defined nm s) := rfl

theorem checkDefine_ok (d : Nat) (nm : String) (r : Expr) (s : CSt) (hn : hasName nm s.tabs = false)
    (hnb : Spec.builtinNames.contains nm = false) (hnf : isFuncE r = false)
    (hre : KId (checkExpr (d + 1) r) s) :
    KTo (checkAssign (d + 1 + 1) "Define" [.ident nm] [r]) s (defined nm s) := by
  rw [checkDefine_staged, hnf]
  unfold KTo chkDefineStaged
  rw [k_bind _ _ _ _ _ (resolve_run nm s), go_none nm s.tabs 0 hn]
  rw [k_bind _ _ s s s rfl]
  simp only [hnb, Bool.false_and, Bool.and_false, Bool.false_eq_true, if_false,
    (by decide : ((none : Option Nat) == some 0) = false), Bool.not_false, if_true]
  rw [k_bind _ _ _ _ _ hre]
  rw [k_bind _ _ s () (defined nm s) rfl]
  rw [Spec.checkExprs]
  rfl

theorem ret_some_ok (d : Nat) (x : Expr) (s : CSt) (h : s.loopStack.isEmpty = false)
    (he : KId (checkExpr d x) s) : KId (checkStmt (d + 1) (.ret (some x))) s := by
  simp only [checkStmt]
  unfold KId
  rw [k_bind _ _ s s s rfl]
  simp only [h, Bool.false_and, Bool.false_eq_true, if_false]
  exact he

theorem ret_none_ok (d : Nat) (s : CSt) (h : s.loopStack.isEmpty = false) :
    KId (checkStmt (d + 1) (.ret none)) s := by
  simp only [checkStmt]
  unfold KId
  rw [k_bind _ _ s s s rfl]
  simp only [h, Bool.false_and, Bool.false_eq_true, if_false]
  rfl

theorem isFuncE_toAstE3 (names lnames : Nat → String) (ctab : Nat → F0.Const) (e : Ex) :
    isFuncE (toAstE3 names lnames ctab e) = false := by
  cases e <;> simp only [toAstE3, isFuncE]
  case lit k => cases ctab k <;> rfl

/-! ### statements without local definitions -/

section
variable {names lnames : Nat → String} {ctab : Nat → F0.Const} {n m : Nat} {isFn : Nat → Bool} {inFn : Bool}

mutual
  theorem checkStmt_ok3 : ∀ (st : Stm) (inl : Bool) (d k : Nat) (s : CSt), budS3 st ≤ d → Inv names lnames n m s →
      (inFn = true → s.loopStack.isEmpty = false) → (inl = true → (s.loops != 0) = true) →
      wfS3 isFn n m inFn inl k st = true → KId (checkStmt d (toAstS3 names lnames ctab st)) s
    | .expr e, inl, d, k, s, hd, hg, hfn, hl, hw => by
      simp only [budS3] at hd
      obtain ⟨d, rfl⟩ : ∃ d', d = d' + 1 := ⟨d - 1, by omega⟩
      simp only [wfS3] at hw
      simp only [toAstS3, checkStmt]
      exact checkExpr_ok3 e d k s (by omega) hg hw
    | .assign i e, inl, d, k, s, hd, hg, hfn, hl, hw => by
      simp only [budS3] at hd
      obtain ⟨d, rfl⟩ : ∃ d', d = d' + 1 + 1 + 1 := ⟨d - 3, by have := budE3_pos e; omega⟩
      simp only [wfS3, Bool.and_eq_true, decide_eq_true_eq] at hw
      simp only [toAstS3, checkStmt]
      exact checkAssign_ok3 d _ _ s (hg.glob i hw.1) (by simp only [hg.inputs i hw.1, Bool.not_true, Bool.and_false])
        (checkExpr_ok3 e (d + 1) k s (by omega) hg hw.2)
    | .defl i e, inl, d, k, s, hd, hg, hfn, hl, hw => by
      simp only [wfS3] at hw
      cases hw
    | .setl i e, inl, d, k, s, hd, hg, hfn, hl, hw => by
      simp only [budS3] at hd
      obtain ⟨d, rfl⟩ : ∃ d', d = d' + 1 + 1 + 1 := ⟨d - 3, by have := budE3_pos e; omega⟩
      simp only [wfS3, Bool.and_eq_true, decide_eq_true_eq] at hw
      simp only [toAstS3, checkStmt]
      exact checkAssign_ok3 d _ _ s (hg.loc i hw.1) (by simp only [hg.nb i, Bool.false_and])
        (checkExpr_ok3 e (d + 1) k s (by omega) hg hw.2)
    | .ifs c body, inl, d, k, s, hd, hg, hfn, hl, hw => by
      simp only [budS3] at hd
      obtain ⟨d, rfl⟩ : ∃ d', d = d' + 1 + 1 := ⟨d - 2, by omega⟩
      simp only [wfS3, Bool.and_eq_true] at hw
      simp only [toAstS3, checkStmt]
      exact ((kto_push s).seq ((optNone_ok d _).to.seq ((checkExpr_ok3 c (d + 1) k _ (by omega) hg.pushed hw.1).to.seq
        ((checkBlock_ok3 body inl (d + 1) _ _ (by omega) hg.pushed hfn hl hw.2).to.seq
          ((optNone_ok d _).to.seq (kto_pop s)))))).id
    | .ifelse c body els, inl, d, k, s, hd, hg, hfn, hl, hw => by
      simp only [budS3] at hd
      obtain ⟨d, rfl⟩ : ∃ d', d = d' + 1 + 1 + 1 + 1 := ⟨d - 4, by omega⟩
      simp only [wfS3, Bool.and_eq_true] at hw
      simp only [toAstS3, checkStmt]
      have hels : KId (checkOptStmt (d + 1 + 1 + 1) (some (Stmt.block (toAstSs3 names lnames ctab els)))) (pushed s) := by
        rw [Spec.checkOptStmt, Spec.checkStmt]
        exact checkBlock_ok3 els inl (d + 1) _ _ (by omega) hg.pushed hfn hl hw.2
      exact ((kto_push s).seq ((optNone_ok _ _).to.seq ((checkExpr_ok3 c _ k _ (by omega) hg.pushed hw.1.1).to.seq
        ((checkBlock_ok3 body inl _ _ _ (by omega) hg.pushed hfn hl hw.1.2).to.seq (hels.to.seq (kto_pop s)))))).id
    | .whil c body, inl, d, k, s, hd, hg, hfn, hl, hw => by
      simp only [budS3] at hd
      obtain ⟨d, rfl⟩ : ∃ d', d = d' + 1 + 1 := ⟨d - 2, by omega⟩
      simp only [wfS3, Bool.and_eq_true] at hw
      simp only [toAstS3, checkStmt]
      exact ((kto_push s).seq ((optNone_ok d _).to.seq ((checkExpr_ok3 c (d + 1) k _ (by omega) hg.pushed hw.1).to.seq
        ((kto_loopIn _).seq ((checkBlock_ok3 body true (d + 1) _ _ (by omega) hg.pushed.looped hfn
            (fun _ => by simp [looped_loops]) hw.2).to.seq
          ((kto_loopOut _).seq ((optNone_ok d _).to.seq (kto_pop s)))))))).id
    | .forever body, inl, d, k, s, hd, hg, hfn, hl, hw => by
      simp only [budS3] at hd
      obtain ⟨d, rfl⟩ : ∃ d', d = d' + 1 + 1 := ⟨d - 2, by omega⟩
      simp only [wfS3] at hw
      simp only [toAstS3, checkStmt]
      exact ((kto_push s).seq ((optNone_ok d _).to.seq ((KId.pure _).to.seq
        ((kto_loopIn _).seq ((checkBlock_ok3 body true (d + 1) _ _ (by omega) hg.pushed.looped hfn
            (fun _ => by simp [looped_loops]) hw).to.seq
          ((kto_loopOut _).seq ((optNone_ok d _).to.seq (kto_pop s)))))))).id
    | .for3 c body post, inl, d, k, s, hd, hg, hfn, hl, hw => by
      simp only [budS3] at hd
      obtain ⟨d, rfl⟩ : ∃ d', d = d' + 1 + 1 := ⟨d - 2, by omega⟩
      simp only [wfS3, Bool.and_eq_true] at hw
      simp only [toAstS3, checkStmt]
      have hpost : KId (checkOptStmt (d + 1) (some (toAstS3 names lnames ctab post))) (pushed s) := by
        rw [Spec.checkOptStmt]
        exact checkStmt_ok3 post inl d _ _ (by omega) hg.pushed hfn hl hw.2
      exact ((kto_push s).seq ((optNone_ok d _).to.seq
        ((checkExpr_ok3 c (d + 1) k _ (by omega) hg.pushed hw.1.1.1).to.seq
        ((kto_loopIn _).seq ((checkBlock_ok3 body true (d + 1) _ _ (by omega) hg.pushed.looped hfn
            (fun _ => by simp [looped_loops]) hw.1.1.2).to.seq
          ((kto_loopOut _).seq (hpost.to.seq (kto_pop s)))))))).id
    | .brk, inl, d, k, s, hd, hg, hfn, hl, hw => by
      simp only [budS3] at hd
      obtain ⟨d, rfl⟩ : ∃ d', d = d' + 1 := ⟨d - 1, by omega⟩
      simp only [wfS3] at hw
      simp only [toAstS3]
      exact branch_ok d _ s (hl hw)
    | .cont, inl, d, k, s, hd, hg, hfn, hl, hw => by
      simp only [budS3] at hd
      obtain ⟨d, rfl⟩ : ∃ d', d = d' + 1 := ⟨d - 1, by omega⟩
      simp only [wfS3] at hw
      simp only [toAstS3]
      exact branch_ok d _ s (hl hw)
    | .ret e, inl, d, k, s, hd, hg, hfn, hl, hw => by
      simp only [budS3] at hd
      obtain ⟨d, rfl⟩ : ∃ d', d = d' + 1 := ⟨d - 1, by omega⟩
      simp only [wfS3, Bool.and_eq_true] at hw
      simp only [toAstS3]
      exact ret_some_ok d _ s (hfn hw.1) (checkExpr_ok3 e d k s (by omega) hg hw.2)
    | .ret0, inl, d, k, s, hd, hg, hfn, hl, hw => by
      simp only [budS3] at hd
      obtain ⟨d, rfl⟩ : ∃ d', d = d' + 1 := ⟨d - 1, by omega⟩
      simp only [wfS3] at hw
      simp only [toAstS3]
      exact ret_none_ok d s (hfn hw)
  theorem checkBlock_ok3 : ∀ (ss : Stms) (inl : Bool) (d k : Nat) (s : CSt), budSs3 ss + 1 ≤ d →
      Inv names lnames n m s → (inFn = true → s.loopStack.isEmpty = false) → (inl = true → (s.loops != 0) = true) →
      wfSs3 isFn n m inFn inl k ss = true → KId (checkBlock d (toAstSs3 names lnames ctab ss)) s
    | .nil, inl, d, k, s, hd, hg, hfn, hl, hw => by
      obtain ⟨d, rfl⟩ : ∃ d', d = d' + 1 := ⟨d - 1, by omega⟩
      simp only [toAstSs3, Spec.checkBlock]
      exact KId.pure s
    | .cons st ss, inl, d, k, s, hd, hg, hfn, hl, hw => by
      obtain ⟨d, rfl⟩ : ∃ d', d = d' + 1 := ⟨d - 1, by omega⟩
      rw [toAstSs3, Spec.checkBlock, ← toAstSs3]
      · exact ((kto_push s).seq ((checkStmts_ok3 (.cons st ss) inl d k _ (by omega) hg.pushed hfn hl hw).to.seq
          (kto_pop s))).id
      · simp
  theorem checkStmts_ok3 : ∀ (ss : Stms) (inl : Bool) (d k : Nat) (s : CSt), budSs3 ss ≤ d →
      Inv names lnames n m s → (inFn = true → s.loopStack.isEmpty = false) → (inl = true → (s.loops != 0) = true) →
      wfSs3 isFn n m inFn inl k ss = true → KId (checkStmts d (toAstSs3 names lnames ctab ss)) s
    | .nil, inl, d, k, s, hd, hg, hfn, hl, hw => by
      simp only [budSs3] at hd
      obtain ⟨d, rfl⟩ : ∃ d', d = d' + 1 := ⟨d - 1, by omega⟩
      simp only [toAstSs3, Spec.checkStmts]
      exact KId.pure s
    | .cons st ss, inl, d, k, s, hd, hg, hfn, hl, hw => by
      simp only [budSs3] at hd
      obtain ⟨d, rfl⟩ : ∃ d', d = d' + 1 := ⟨d - 1, by omega⟩
      simp only [wfSs3, Bool.and_eq_true] at hw
      simp only [toAstSs3, Spec.checkStmts]
      exact (checkStmt_ok3 st inl d k s (by omega) hg hfn hl hw.1).seq
        (checkStmts_ok3 ss inl d _ s (by omega) hg hfn hl hw.2)
end

end

/-! ### the top level of a function body -/

/-- The state inside the body of a function: the block table of the body (holding `nms`) on the tables of `s0`. -/
def bodySt (nms : List String) (s0 : CSt) : CSt := { s0 with tabs := ⟨nms, true⟩ :: s0.tabs }

theorem bodySt_nil (s0 : CSt) : bodySt [] s0 = pushed s0 := rfl
theorem defined_bodySt (nm : String) (nms : List String) (s0 : CSt) :
    defined nm (bodySt nms s0) = bodySt (nm :: nms) s0 := rfl
theorem kto_pop_body (nms : List String) (s0 : CSt) : KTo Spec.popTab (bodySt nms s0) s0 := by cases s0; rfl

theorem hasName_body_cons (x nm : String) (nms : List String) (s0 : CSt) :
    hasName x (bodySt (nm :: nms) s0).tabs = (x == nm || hasName x (bodySt nms s0).tabs) := by
  simp only [hasName, bodySt, List.any_cons, List.contains_cons, Bool.or_assoc]

section
variable {names lnames : Nat → String} {ctab : Nat → F0.Const} {n : Nat} {isFn : Nat → Bool}

theorem Inv.defl {m : Nat} {nms : List String} {s0 : CSt} (hN : NamesOK names lnames n)
    (h : Inv names lnames n m (bodySt nms s0)) : Inv names lnames n (m + 1) (bodySt (lnames m :: nms) s0) := by
  refine ⟨fun i hi => ?_, fun i hi => ?_, fun i hi => ?_, h.inputs, h.nb⟩
  · rw [hasName_body_cons, h.glob i hi, Bool.or_true]
  · rw [hasName_body_cons]
    by_cases him : i = m
    · subst him; simp
    · rw [h.loc i (by omega), Bool.or_true]
  · rw [hasName_body_cons, h.fresh i (by omega), Bool.or_false]
    have : lnames i ≠ lnames m := fun he => by have := hN.linj i m he; omega
    simpa using this

theorem wfBody_cons_cases {m k : Nat} {st : Stm} {ss : Stms} (h : wfBody isFn n m k (.cons st ss) = true) :
    (∃ e, st = .defl m e ∧ wfE3 isFn n m k e = true ∧ wfBody isFn n (m + 1) (k + nlitsE3 e) ss = true) ∨
      (wfS3 isFn n m true false k st = true ∧ wfBody isFn n m (k + nlitsS3 st) ss = true) := by
  cases st with
  | defl i e =>
    simp only [wfBody, Bool.and_eq_true, beq_iff_eq] at h
    obtain ⟨⟨rfl, h1⟩, h2⟩ := h
    exact Or.inl ⟨e, rfl, h1, h2⟩
  | _ =>
    simp only [wfBody, Bool.and_eq_true] at h
    exact Or.inr h

/-- The statements of a function body only add names to the block table of the body. -/
theorem checkBody_ok (hN : NamesOK names lnames n) : ∀ (ss : Stms) (d k m : Nat) (s0 : CSt) (nms : List String),
    budSs3 ss ≤ d → Inv names lnames n m (bodySt nms s0) → s0.loopStack.isEmpty = false →
    wfBody isFn n m k ss = true →
    ∃ nms', KTo (checkStmts d (toAstSs3 names lnames ctab ss)) (bodySt nms s0) (bodySt nms' s0)
  | .nil, d, k, m, s0, nms, hd, hg, hls, hw => by
    simp only [budSs3] at hd
    obtain ⟨d, rfl⟩ : ∃ d', d = d' + 1 := ⟨d - 1, by omega⟩
    simp only [toAstSs3, Spec.checkStmts]
    exact ⟨nms, (KId.pure _).to⟩
  | .cons st ss, d, k, m, s0, nms, hd, hg, hls, hw => by
    simp only [budSs3] at hd
    obtain ⟨d, rfl⟩ : ∃ d', d = d' + 1 := ⟨d - 1, by omega⟩
    simp only [toAstSs3, Spec.checkStmts]
    rcases wfBody_cons_cases hw with ⟨e, rfl, hwe, hwr⟩ | ⟨hws, hwr⟩
    · simp only [budS3] at hd
      obtain ⟨d, rfl⟩ : ∃ d', d = d' + 1 + 1 + 1 := ⟨d - 3, by have := budE3_pos e; omega⟩
      obtain ⟨nms', hr⟩ := checkBody_ok hN ss (d + 1 + 1 + 1) _ (m + 1) s0 (lnames m :: nms) (by omega)
        (hg.defl hN) hls hwr
      refine ⟨nms', KTo.seq ?_ hr⟩
      simp only [toAstS3, checkStmt]
      rw [← defined_bodySt]
      exact checkDefine_ok d _ _ _ (hg.fresh m (Nat.le_refl m)) (hg.nb m) (isFuncE_toAstE3 names lnames ctab e)
        (checkExpr_ok3 e (d + 1) k _ (by omega) hg hwe)
    · obtain ⟨nms', hr⟩ := checkBody_ok hN ss d _ m s0 nms (by omega) hg hls hwr
      exact ⟨nms', KTo.seq (checkStmt_ok3 (inFn := true) st false d k _ (by omega) hg (fun _ => hls)
        (fun h => by cases h) hws).to hr⟩

/-! ### function literals -/

/-- The state inside a function literal: the function table (holding `nms`) on the tables of `s`, outside every
loop, the loop count of `s` saved. -/
def fnSt (nms : List String) (s : CSt) : CSt :=
  { s with tabs := ⟨nms, false⟩ :: s.tabs, loops := 0, loopStack := s.loops :: s.loopStack }

theorem params_ok (s : CSt) : ∀ (ps nms : List String),
    KTo (ps.forM Spec.define) (fnSt nms s) (fnSt (ps.reverse ++ nms) s)
  | [], nms => by simp only [List.forM_nil, List.reverse_nil, List.nil_append]; rfl
  | p :: ps, nms => by
    simp only [List.forM_cons, List.reverse_cons, List.append_assoc, List.singleton_append]
    exact KTo.seq (kto_define p _) (params_ok s ps (p :: nms))

theorem hasName_fnSt (x : String) (nms : List String) (s : CSt) :
    hasName x (fnSt nms s).tabs = (nms.contains x || hasName x s.tabs) := by
  simp only [hasName, fnSt, List.any_cons]

theorem Inv.fn {s : CSt} (hN : NamesOK names lnames n) (np : Nat) (h : Inv names lnames n 0 s) :
    Inv names lnames n np (fnSt ((paramsOf lnames np).reverse ++ []) s) := by
  refine ⟨fun i hi => ?_, fun i hi => ?_, fun i hi => ?_, h.inputs, h.nb⟩
  · rw [hasName_fnSt, h.glob i hi, Bool.or_true]
  · rw [hasName_fnSt]
    have : ((paramsOf lnames np).reverse ++ []).contains (lnames i) = true := by
      simp only [List.contains_iff_mem, List.append_nil, List.mem_reverse, paramsOf, List.mem_map, List.mem_range]
      exact ⟨i, hi, rfl⟩
    rw [this, Bool.true_or]
  · rw [hasName_fnSt, h.fresh i (Nat.zero_le i), Bool.or_false]
    rw [Bool.eq_false_iff]
    intro hc
    simp only [List.contains_iff_mem, List.append_nil, List.mem_reverse, paramsOf, List.mem_map, List.mem_range] at hc
    obtain ⟨j, hj, he⟩ := hc
    have := hN.linj j i he
    omega

theorem funcLit_ok (hN : NamesOK names lnames n) (fd : FnDef) (d k : Nat) (s : CSt) (hd : budSs3 fd.body + 2 ≤ d)
    (hg : Inv names lnames n 0 s) (hw : wfBody isFn n fd.nparams k fd.body = true) :
    KId (checkExpr d (funcLit names lnames ctab fd)) s := by
  obtain ⟨d, rfl⟩ : ∃ d', d = d' + 1 + 1 := ⟨d - 2, by omega⟩
  have hgf := hg.fn hN fd.nparams
  generalize hps : (paramsOf lnames fd.nparams).reverse ++ [] = ps at hgf
  have hblock : KId (checkBlock (d + 1) (toAstSs3 names lnames ctab fd.body)) (fnSt ps s) := by
    cases hb : fd.body with
    | nil => simp only [toAstSs3, Spec.checkBlock]; exact KId.pure _
    | cons st ss =>
      rw [hb] at hw hd
      rw [toAstSs3, Spec.checkBlock, ← toAstSs3]
      · obtain ⟨nms', hr⟩ := checkBody_ok (ctab := ctab) hN (.cons st ss) d k fd.nparams (fnSt ps s) [] (by omega)
          (by rw [bodySt_nil]; exact hgf.pushed) rfl hw
        exact ((kto_push _).seq (hr.seq (kto_pop_body nms' _))).id
      · simp
  simp only [funcLit, checkExpr]
  unfold KId
  rw [k_bind _ _ s s s rfl]
  rw [k_bind _ _ s () (fnSt [] s) rfl]
  rw [k_bind _ _ _ _ _ (params_ok s (paramsOf lnames fd.nparams) [])]
  rw [hps]
  rw [k_bind _ _ _ _ _ hblock]
  rw [k_bind _ _ (fnSt ps s) (fnSt ps s) (fnSt ps s) rfl]
  cases s; rfl

/-! ### the main program -/

theorem checkMain_ok (hN : NamesOK names lnames n) (P : Prog) : ∀ (ss : Stms) (d k : Nat) (s : CSt),
    budMain P ss ≤ d → Inv names lnames n 0 s → wfMain P n k ss = true →
    KId (checkStmts d (toAstMain names lnames ctab P ss)) s
  | .nil, d, k, s, hd, hg, hw => by
    simp only [budMain] at hd
    obtain ⟨d, rfl⟩ : ∃ d', d = d' + 1 := ⟨d - 1, by omega⟩
    simp only [toAstMain, Spec.checkStmts]
    exact KId.pure s
  | .cons st ss, d, k, s, hd, hg, hw => by
    simp only [budMain] at hd
    obtain ⟨d, rfl⟩ : ∃ d', d = d' + 1 := ⟨d - 1, by omega⟩
    simp only [wfMain, Bool.and_eq_true] at hw
    simp only [toAstMain, Spec.checkStmts]
    refine KId.seq ?_ (checkMain_ok hN P ss d _ s (by omega) hg hw.2)
    have hw1 := hw.1
    have hd1 : budTop P st ≤ d := by omega
    cases htf : topFn P st with
    | none =>
      simp only [htf] at hw1
      simp only [budTop, htf] at hd1
      simp only [toAstTop, htf]
      exact checkStmt_ok3 (inFn := false) st false d k s hd1 hg (fun h => by cases h) (fun h => by cases h) hw1
    | some x =>
      obtain ⟨i, j, fd⟩ := x
      simp only [htf, Bool.and_eq_true, decide_eq_true_eq, wfFn] at hw1
      simp only [budTop, htf] at hd1
      simp only [toAstTop, htf]
      obtain ⟨d, rfl⟩ : ∃ d', d = d' + 1 + 1 + 1 := ⟨d - 3, by omega⟩
      simp only [checkStmt]
      exact checkAssign_ok3 d _ _ s (hg.glob i hw1.1.1)
        (by simp only [hg.inputs i hw1.1.1, Bool.not_true, Bool.and_false])
        (funcLit_ok hN fd (d + 1) k s (by omega) hg hw1.1.2.2)

end

/-- **The static check accepts every embedded F3 program** (within its depth budget of 4000). -/
theorem checkProgram_fragment3 (names lnames : Nat → String) (ctab : Nat → F0.Const) (n : Nat) (P : F3.Prog)
    (hN : NamesOK names lnames n) (hb : ∀ i, lnames i ∉ Spec.builtinNames)
    (hwf : wfProg P n = true) (hbud : budMain P P.main ≤ 4000) :
    Spec.checkProgram (inputsOf names n) (toAstProg names lnames ctab P) = none := by
  have hg : Inv names lnames n 0 (chkInit names n) := by
    refine ⟨fun i hi => ?_, fun i hi => by omega, fun i _ => ?_, fun i hi => inputsOf_contains names n i hi,
      fun i => ?_⟩
    · have := inputsOf_contains names n i hi
      simp only [hasName, chkInit, List.any_cons, List.any_nil, Bool.or_false, List.contains_iff_mem,
        List.mem_append] at this ⊢
      exact Or.inl this
    · simp only [hasName, chkInit, List.any_cons, List.any_nil, Bool.or_false]
      rw [Bool.eq_false_iff]
      intro hc
      simp only [List.contains_iff_mem, List.mem_append, inputsOf, List.mem_map, List.mem_range] at hc
      rcases hc with ⟨j, hj, he⟩ | hc
      · exact hN.dis i j hj he.symm
      · exact hb i hc
    · rw [Bool.eq_false_iff]
      intro hc
      exact hb i (by simpa using hc)
  have h := checkMain_ok (ctab := ctab) hN P P.main 4000 0 _ hbud hg hwf
  unfold KId at h
  show (match (checkStmts 4000 (toAstMain names lnames ctab P P.main)) (chkInit names n) with
    | .ok _ => none
    | .error e => some e) = none
  rw [h]

/-- Non-vacuity: the factorial program (recursive function called from a loop in main) meets the hypotheses. -/
example : Spec.checkProgram (inputsOf gname 3) (toAstProg gname lname (fun _ => .int 1) Demo.prog) = none :=
  checkProgram_fragment3 gname lname (fun _ => .int 1) 3 Demo.prog demo_names demo_builtin (by decide) (by decide)

end Tengo.Proofs.C01BridgeF3Spec

import Tengo.Model.SpecEval
namespace Tengo.Proofs.C05Acyclic
open Tengo.Model.Spec

def kids (s : St) : Value → Option (List Value)
  | .arr r | .imarr r =>
    match s.heap[r]? with
    | some (.arr st off len) =>
      match s.heap[st]? with
      | some (.store vs _) => some ((vs.toList.drop off).take len)
      | _ => none
    | _ => none
  | .map r | .immap r =>
    match s.heap[r]? with
    | some (.map kvs) => some (kvs.map (·.2))
    | _ => none
  | .err r =>
    match s.heap[r]? with
    | some (.err x) => some [x]
    | _ => none
  | _ => some []

def fits (s : St) : Nat → Value → Bool
  | 0, _ => false
  | n + 1, v =>
    match kids s v with
    | some ks => ks.all (fits s n)
    | none => false

/-- read-only, no fuel error, result satisfies P -/
def RO {α} (x : M α) (s : St) (P : α → Prop) : Prop :=
  match x s with
  | .ok (a, s') => s' = s ∧ P a
  | .error e => e ≠ Err.fuel

theorem RO.pure {α} {a : α} {s : St} {P : α → Prop} (h : P a) : RO (pure a) s P := ⟨rfl, h⟩
theorem RO.throw {α} {e : Err} {s : St} {P : α → Prop} (h : e ≠ Err.fuel) : RO (throw e : M α) s P := h
theorem RO.bind {α β} {x : M α} {f : α → M β} {s : St} {P : α → Prop} {Q : β → Prop}
    (hx : RO x s P) (hf : ∀ a, P a → RO (f a) s Q) : RO (x >>= f) s Q := by
  have e : (x >>= f) s = (x s >>= fun p => f p.1 p.2) := rfl
  unfold RO at hx ⊢
  rw [e]
  cases h : x s with
  | error e => rw [h] at hx; exact hx
  | ok p =>
    obtain ⟨a, s'⟩ := p
    rw [h] at hx
    obtain ⟨rfl, hp⟩ := hx
    exact hf a hp
theorem RO.mono {α} {x : M α} {s : St} {P Q : α → Prop} (hx : RO x s P) (h : ∀ a, P a → Q a) : RO x s Q := by
  unfold RO at hx ⊢
  split <;> rename_i heq <;> rw [heq] at hx
  · exact ⟨hx.1, h _ hx.2⟩
  · exact hx

theorem RO_getObj (r : Nat) (s : St) : RO (getObj r) s (fun o => s.heap[r]? = some o) := by
  unfold getObj
  refine RO.bind (P := fun s' => s' = s) ⟨rfl, rfl⟩ ?_
  rintro _ rfl
  split
  · rename_i h; exact RO.pure h
  · exact RO.throw (by simp)

theorem RO_arrElems (r : Nat) (s : St) :
    RO (arrElems r) s (fun es => kids s (.arr r) = some es ∧ kids s (.imarr r) = some es) := by
  have tail : RO (do
      let __do_lift ← getObj r
      match __do_lift with
        | Obj.arr st off len => do
          let __do_lift ← getObj st
          match __do_lift with
            | Obj.store vs headers => pure (List.take len (List.drop off vs.toList))
            | x => unsupported "bad store"
        | x => unsupported "bad array ref") s
      (fun es => kids s (.arr r) = some es ∧ kids s (.imarr r) = some es) := by
    refine RO.bind (RO_getObj r s) ?_
    intro o ho
    split
    · refine RO.bind (RO_getObj _ s) ?_
      intro o2 ho2
      split
      · exact RO.pure (by simp [kids, ho, ho2])
      · exact RO.throw (by simp)
    · exact RO.throw (by simp)
  unfold arrElems
  refine RO.bind (P := fun s' => s' = s) ⟨rfl, rfl⟩ ?_
  rintro _ rfl
  split
  · split
    · exact RO.bind (P := fun _ => True) (RO.throw (by simp)) (fun _ _ => tail)
    · exact tail
  · exact tail

theorem RO_mapEntries (r : Nat) (s : St) :
    RO (mapEntries r) s (fun kvs => kids s (.map r) = some (kvs.map (·.2)) ∧ kids s (.immap r) = some (kvs.map (·.2))) := by
  unfold mapEntries
  refine RO.bind (RO_getObj r s) ?_
  intro o ho
  split
  · exact RO.pure (by simp [kids, ho])
  · exact RO.throw (by simp)

theorem RO_mapM {α β} (f : α → M β) (s : St) : ∀ (l : List α), (∀ a ∈ l, RO (f a) s (fun _ => True)) →
    RO (l.mapM f) s (fun _ => True)
  | [], _ => by rw [List.mapM_nil]; exact RO.pure trivial
  | a :: l, h => by
    rw [List.mapM_cons]
    refine RO.bind (h a (by simp)) (fun _ _ => ?_)
    refine RO.bind (RO_mapM f s l (fun b hb => h b (by simp [hb]))) (fun _ _ => ?_)
    exact RO.pure trivial

theorem RO_foldlM {α β} (f : β → α → M β) (s : St) : ∀ (l : List α) (init : β),
    (∀ acc, ∀ a ∈ l, RO (f acc a) s (fun _ => True)) → RO (l.foldlM f init) s (fun _ => True)
  | [], _, _ => by rw [List.foldlM_nil]; exact RO.pure trivial
  | a :: l, init, h => by
    rw [List.foldlM_cons]
    refine RO.bind (h init a (by simp)) (fun b _ => ?_)
    exact RO_foldlM f s l b (fun acc c hc => h acc c (by simp [hc]))

theorem fits_kids {s : St} {n : Nat} {v : Value} (h : fits s (n + 1) v = true) :
    ∃ ks, kids s v = some ks ∧ ∀ k ∈ ks, fits s n k = true := by
  unfold fits at h
  split at h
  · rename_i ks hk; exact ⟨ks, hk, by simpa using h⟩
  · cases h

theorem fits_mono (s : St) : ∀ (n m : Nat) (v : Value), fits s n v = true → n ≤ m → fits s m v = true
  | 0, _, _, h, _ => by simp [fits] at h
  | n + 1, 0, _, _, hle => by omega
  | n + 1, m + 1, v, h, hle => by
    obtain ⟨ks, hk, hall⟩ := fits_kids h
    unfold fits
    rw [hk]
    simp only [List.all_eq_true]
    exact fun k hk => fits_mono s n m k (hall k hk) (by omega)

theorem fits_self_false (s : St) (v : Value) (ks : List Value) (hk : kids s v = some ks) (hself : v ∈ ks) :
    ∀ n, fits s n v = true → False
  | 0, h => by simp [fits] at h
  | n + 1, h => by
    obtain ⟨ks', hk', hall⟩ := fits_kids h
    rw [hk] at hk'
    cases hk'
    exact fits_self_false s v ks hk hself n (hall v hself)

theorem toStringV_RO (s : St) : ∀ (n m : Nat) (v : Value), fits s n v = true → n ≤ m →
    RO (toStringV m v) s (fun _ => True)
  | 0, _, _, h, _ => by simp [fits] at h
  | n + 1, 0, _, _, hle => by omega
  | n + 1, m + 1, v, h, hle => by
    obtain ⟨ks, hk, hall⟩ := fits_kids h
    have ih := fun k (hk : k ∈ ks) => toStringV_RO s n m k (hall k hk) (by omega)
    unfold toStringV
    split
    any_goals exact RO.pure trivial
    any_goals exact RO.throw (by simp)
    · split
      · exact RO.pure trivial
      · exact RO.throw (by simp)
    · refine RO.bind (RO_arrElems _ s) ?_
      rintro es ⟨h1, h2⟩
      have : es = ks := by simpa [h1] using hk
      subst this
      refine RO.bind (RO_mapM _ s es ih) (fun _ _ => RO.pure trivial)
    · refine RO.bind (RO_arrElems _ s) ?_
      rintro es ⟨h1, h2⟩
      have : es = ks := by simpa [h2] using hk
      subst this
      refine RO.bind (RO_mapM _ s es ih) (fun _ _ => RO.pure trivial)
    · refine RO.bind (RO_mapEntries _ s) ?_
      rintro kvs ⟨h1, h2⟩
      have hks : ks = kvs.map (·.2) := by simpa [h1] using hk.symm
      split
      · exact RO.pure trivial
      · refine RO.bind (ih _ (by simp [hks])) (fun _ _ => RO.pure trivial)
      · exact RO.throw (by simp)
    · refine RO.bind (RO_mapEntries _ s) ?_
      rintro kvs ⟨h1, h2⟩
      have hks : ks = kvs.map (·.2) := by simpa [h2] using hk.symm
      split
      · exact RO.pure trivial
      · refine RO.bind (ih _ (by simp [hks])) (fun _ _ => RO.pure trivial)
      · exact RO.throw (by simp)
    · refine RO.bind (RO_getObj _ s) ?_
      intro o ho
      split
      · refine RO.bind (ih _ (by simp [kids, ho] at hk; simp [← hk])) (fun _ _ => RO.pure trivial)
      · exact RO.throw (by simp)

theorem equalsV_RO (s : St) : ∀ (n m : Nat) (a b : Value), fits s n a = true → n ≤ m →
    RO (equalsV m a b) s (fun _ => True)
  | 0, _, _, _, h, _ => by simp [fits] at h
  | n + 1, 0, _, _, _, hle => by omega
  | n + 1, m + 1, a, b, h, hle => by
    obtain ⟨ks, hk, hall⟩ := fits_kids h
    have ih := fun k (hk : k ∈ ks) b => equalsV_RO s n m k b (hall k hk) (by omega)
    unfold equalsV
    split
    any_goals exact RO.pure trivial
    iterate 4
      · refine RO.bind (RO_arrElems _ s) ?_
        rintro xs ⟨h1, h2⟩
        refine RO.bind (RO_arrElems _ s) ?_
        rintro ys _
        have hks : xs = ks := by first | simpa [h1] using hk | simpa [h2] using hk
        subst hks
        split
        · exact RO.pure trivial
        · refine RO_foldlM _ s _ _ ?_
          rintro acc ⟨p, q⟩ hpq
          dsimp only
          split
          · exact ih p (List.of_mem_zip hpq).1 q
          · exact RO.pure trivial
    iterate 4
      · refine RO.bind (RO_mapEntries _ s) ?_
        rintro xs ⟨h1, h2⟩
        refine RO.bind (RO_mapEntries _ s) ?_
        rintro ys _
        have hks : ks = xs.map (·.2) := by first | simpa [h1] using hk.symm | simpa [h2] using hk.symm
        split
        · exact RO.pure trivial
        · refine RO_foldlM _ s _ _ ?_
          rintro acc ⟨k, v⟩ hkv
          dsimp only
          split
          · exact RO.pure trivial
          · split
            · exact ih v (by rw [hks]; exact List.mem_map.mpr ⟨_, hkv, rfl⟩) _
            · exact RO.pure trivial

theorem lookup_mem_vals {α β} [BEq α] (k : α) (w : β) : ∀ (l : List (α × β)), l.lookup k = some w → w ∈ l.map (·.2)
  | [], h => by simp at h
  | (k', v) :: l, h => by
    rw [List.lookup_cons] at h
    split at h
    · cases h; simp
    · simp [lookup_mem_vals k w l h]

theorem equalsV_ROr (s : St) : ∀ (n m : Nat) (a b : Value), fits s n b = true → n ≤ m →
    RO (equalsV m a b) s (fun _ => True)
  | 0, _, _, _, h, _ => by simp [fits] at h
  | n + 1, 0, _, _, _, hle => by omega
  | n + 1, m + 1, a, b, h, hle => by
    obtain ⟨ks, hk, hall⟩ := fits_kids h
    have ih := fun k (hk : k ∈ ks) a => equalsV_ROr s n m a k (hall k hk) (by omega)
    unfold equalsV
    split
    any_goals exact RO.pure trivial
    iterate 4
      · refine RO.bind (RO_arrElems _ s) ?_
        rintro xs _
        refine RO.bind (RO_arrElems _ s) ?_
        rintro ys ⟨h1, h2⟩
        have hks : ys = ks := by first | simpa [h1] using hk | simpa [h2] using hk
        subst hks
        split
        · exact RO.pure trivial
        · refine RO_foldlM _ s _ _ ?_
          rintro acc ⟨p, q⟩ hpq
          dsimp only
          split
          · exact ih q (List.of_mem_zip hpq).2 p
          · exact RO.pure trivial
    iterate 4
      · refine RO.bind (RO_mapEntries _ s) ?_
        rintro xs _
        refine RO.bind (RO_mapEntries _ s) ?_
        rintro ys ⟨h1, h2⟩
        have hks : ks = ys.map (·.2) := by first | simpa [h1] using hk.symm | simpa [h2] using hk.symm
        split
        · exact RO.pure trivial
        · refine RO_foldlM _ s _ _ ?_
          rintro acc ⟨k, v⟩ hkv
          dsimp only
          split
          · exact RO.pure trivial
          · split
            · rename_i w hw
              exact ih w (by rw [hks]; exact lookup_mem_vals _ _ _ hw) _
            · exact RO.pure trivial


theorem equalsV_RO2 (s : St) (n m : Nat) (a b : Value) (h : fits s n a = true ∨ fits s n b = true) (hle : n ≤ m) :
    RO (equalsV m a b) s (fun _ => True) :=
  h.elim (fun h => equalsV_RO s n m a b h hle) (fun h => equalsV_ROr s n m a b h hle)

/-! ### heap extension, `copyV` -/

/-- `s'` extends `s`: same `appendedFrom`/`dirty`, every object of `s` still there. -/
def Ext (s s' : St) : Prop :=
  s'.appendedFrom = s.appendedFrom ∧ s'.dirty = s.dirty ∧ ∀ (r : Nat) (o : Obj), s.heap[r]? = some o → s'.heap[r]? = some o

theorem Ext.refl (s : St) : Ext s s := ⟨rfl, rfl, fun _ _ h => h⟩
theorem Ext.trans {a b c : St} (h1 : Ext a b) (h2 : Ext b c) : Ext a c :=
  ⟨h2.1.trans h1.1, h2.2.1.trans h1.2.1, fun r o h => h2.2.2 r o (h1.2.2 r o h)⟩

theorem kids_ext {s s' : St} (he : Ext s s') {v : Value} {ks : List Value} (h : kids s v = some ks) :
    kids s' v = some ks := by
  have key : ∀ (r : Nat) (o : Obj), s.heap[r]? = some o → s'.heap[r]? = some o := he.2.2
  have harr : ∀ r : Nat, (match s.heap[r]? with
      | some (Obj.arr st off len) =>
        match s.heap[st]? with
        | some (Obj.store vs _) => some ((vs.toList.drop off).take len)
        | _ => none
      | _ => none) = some ks → (match s'.heap[r]? with
      | some (Obj.arr st off len) =>
        match s'.heap[st]? with
        | some (Obj.store vs _) => some ((vs.toList.drop off).take len)
        | _ => none
      | _ => none) = some ks := by
    intro r h
    split at h
    · rename_i h1
      split at h
      · rename_i h2
        rw [key _ _ h1]; dsimp only; rw [key _ _ h2]; exact h
      · cases h
    · cases h
  have hmap : ∀ r : Nat, (match s.heap[r]? with
      | some (Obj.map kvs) => some (kvs.map (·.2))
      | _ => none) = some ks → (match s'.heap[r]? with
      | some (Obj.map kvs) => some (kvs.map (·.2))
      | _ => none) = some ks := by
    intro r h
    split at h
    · rename_i h1; rw [key _ _ h1]; exact h
    · cases h
  cases v <;> simp only [kids] at h ⊢ <;> first | exact h | exact harr _ h | exact hmap _ h | skip
  split at h
  · rename_i h1; rw [key _ _ h1]; exact h
  · cases h

theorem fits_ext {s s' : St} (he : Ext s s') : ∀ (n : Nat) (v : Value), fits s n v = true → fits s' n v = true
  | 0, _, h => by simp [fits] at h
  | n + 1, v, h => by
    obtain ⟨ks, hk, hall⟩ := fits_kids h
    unfold fits
    rw [kids_ext he hk]
    simp only [List.all_eq_true]
    exact fun k hk => fits_ext he n k (hall k hk)

/-- `x` (in `EM`) does not answer `Err.fuel`, and only extends the heap. -/
def GR {α} (x : EM α) (g : GSt) (s : St) : Prop :=
  match x g s with
  | .ok (_, s') => Ext s s'
  | .error e => e ≠ Err.fuel

theorem GR.pure {α} {a : α} {g : GSt} {s : St} : GR (pure a : EM α) g s := Ext.refl s
theorem GR.bind {α β} {x : EM α} {f : α → EM β} {g : GSt} {s : St}
    (hx : GR x g s) (hf : ∀ a g' s', Ext s s' → GR (f a) g' s') : GR (x >>= f) g s := by
  have e : (x >>= f) g s = (x g s >>= fun p => f p.1.1 p.1.2 p.2) := rfl
  unfold GR at hx ⊢
  rw [e]
  cases h : x g s with
  | error e => rw [h] at hx; exact hx
  | ok p =>
    obtain ⟨⟨a, g'⟩, s'⟩ := p
    rw [h] at hx
    have := hf a g' s' hx
    unfold GR at this
    show match f a g' s' with | .ok (_, s'') => Ext s s'' | .error e => e ≠ Err.fuel
    split <;> rename_i heq <;> rw [heq] at this
    · exact hx.trans this
    · exact this

theorem GR.liftRO {α} {x : M α} {g : GSt} {s : St} {P : α → Prop} (h : RO x s P) : GR (Tengo.Model.Spec.liftM x) g s := by
  have e : (Tengo.Model.Spec.liftM x : EM α) g s = (x s >>= fun p => Except.ok ((p.1, g), p.2)) := rfl
  unfold GR RO at *
  rw [e]
  cases hh : x s with
  | error e => rw [hh] at h; exact h
  | ok p => obtain ⟨a, s'⟩ := p; rw [hh] at h; obtain ⟨rfl, _⟩ := h; exact Ext.refl _

theorem GR.lift {α} {x : M α} {g : GSt} {s : St}
    (h : match x s with | .ok (_, s') => Ext s s' | .error e => e ≠ Err.fuel) : GR (Tengo.Model.Spec.liftM x) g s := by
  have e : (Tengo.Model.Spec.liftM x : EM α) g s = (x s >>= fun p => Except.ok ((p.1, g), p.2)) := rfl
  unfold GR
  rw [e]
  cases hh : x s with
  | error e => rw [hh] at h; exact h
  | ok p => obtain ⟨a, s'⟩ := p; rw [hh] at h; exact h

theorem GR.throw {α} {e : Err} {g : GSt} {s : St} (h : e ≠ Err.fuel) :
    GR (Tengo.Model.Spec.liftM (throw e) : EM α) g s := GR.lift h

theorem GR.bindRO {α β} {x : M α} {f : α → EM β} {g : GSt} {s : St} {P : α → Prop}
    (hx : RO x s P) (hf : ∀ a, P a → GR (f a) g s) : GR (Tengo.Model.Spec.liftM x >>= f) g s := by
  have e1 : ∀ a s', x s = .ok (a, s') → (Tengo.Model.Spec.liftM x >>= f) g s = f a g s' := by
    intro a s' h
    show ((x s >>= fun q => Except.ok ((q.1, g), q.2)) >>= fun p => f p.1.1 p.1.2 p.2) = _
    rw [h]; rfl
  have e2 : ∀ e, x s = .error e → (Tengo.Model.Spec.liftM x >>= f) g s = .error e := by
    intro e h
    show ((x s >>= fun q => Except.ok ((q.1, g), q.2)) >>= fun p => f p.1.1 p.1.2 p.2) = _
    rw [h]; rfl
  unfold GR RO at *
  cases hh : x s with
  | error e => rw [hh] at hx; rw [e2 e hh]; exact hx
  | ok p => obtain ⟨a, s'⟩ := p; rw [hh] at hx; obtain ⟨rfl, hp⟩ := hx; rw [e1 a s' hh]; exact hf a hp

theorem Ext_push (s : St) (o : Obj) : Ext s { s with heap := s.heap.push o } := by
  refine ⟨rfl, rfl, fun r o' h => ?_⟩
  have hr : r < s.heap.size := by
    rcases Nat.lt_or_ge r s.heap.size with h' | h'
    · exact h'
    · rw [Array.getElem?_eq_none h'] at h; cases h
  show (s.heap.push o)[r]? = some o'
  rw [Array.getElem?_push_lt hr]
  rw [Array.getElem?_eq_getElem hr] at h
  exact h

theorem GR_alloc (o : Obj) (g : GSt) (s : St) : GR (Tengo.Model.Spec.liftM (alloc o)) g s :=
  GR.lift (Ext_push s o)

theorem GR_newArray (vs : List Value) (g : GSt) (s : St) : GR (Tengo.Model.Spec.liftM (newArray vs)) g s :=
  GR.lift ((Ext_push s _).trans (Ext_push _ _))

theorem GR_mapM {α β} (f : α → EM β) : ∀ (l : List α) (g : GSt) (s : St),
    (∀ a ∈ l, ∀ g' s', Ext s s' → GR (f a) g' s') → GR (l.mapM f) g s
  | [], _, _, _ => by rw [List.mapM_nil]; exact GR.pure
  | a :: l, g, s, h => by
    rw [List.mapM_cons]
    refine GR.bind (h a (by simp) g s (Ext.refl s)) (fun _ g1 s1 e1 => ?_)
    refine GR.bind (GR_mapM f l g1 s1 (fun b hb g' s' e' => h b (by simp [hb]) g' s' (e1.trans e'))) (fun _ _ _ _ => ?_)
    exact GR.pure

theorem copyV_GR : ∀ (n m : Nat) (v : Value) (g : GSt) (s : St), fits s n v = true → n ≤ m → GR (copyV m v) g s
  | 0, _, _, _, _, h, _ => by simp [fits] at h
  | n + 1, 0, _, _, _, _, hle => by omega
  | n + 1, m + 1, v, g, s, h, hle => by
    obtain ⟨ks, hk, hall⟩ := fits_kids h
    have ih := fun k (hk : k ∈ ks) g' s' (he : Ext s s') =>
      copyV_GR n m k g' s' (fits_ext he n k (hall k hk)) (by omega)
    unfold copyV
    split
    · refine GR.bindRO (RO_arrElems _ s) ?_
      rintro es ⟨h1, h2⟩
      have : es = ks := by first | simpa [h1] using hk | simpa [h2] using hk
      subst this
      refine GR.bind (GR_mapM _ es g s ih) (fun cs g1 s1 _ => ?_)
      refine GR.bind (GR_newArray cs g1 s1) (fun _ _ _ _ => GR.pure)
    · refine GR.bindRO (RO_arrElems _ s) ?_
      rintro es ⟨h1, h2⟩
      have : es = ks := by first | simpa [h1] using hk | simpa [h2] using hk
      subst this
      refine GR.bind (GR_mapM _ es g s ih) (fun cs g1 s1 _ => ?_)
      refine GR.bind (GR_newArray cs g1 s1) (fun _ _ _ _ => GR.pure)
    · refine GR.bindRO (RO_mapEntries _ s) ?_
      rintro kvs ⟨h1, h2⟩
      have hks : ks = kvs.map (·.2) := by first | simpa [h1] using hk.symm | simpa [h2] using hk.symm
      refine GR.bind (GR_mapM _ kvs g s ?_) (fun cs g1 s1 _ => ?_)
      · rintro ⟨k, x⟩ hkx g' s' he
        dsimp only
        refine GR.bind (ih x (by rw [hks]; exact List.mem_map.mpr ⟨_, hkx, rfl⟩) g' s' he) (fun _ _ _ _ => GR.pure)
      · refine GR.bind (GR_alloc _ g1 s1) (fun _ _ _ _ => GR.pure)
    · refine GR.bindRO (RO_mapEntries _ s) ?_
      rintro kvs ⟨h1, h2⟩
      have hks : ks = kvs.map (·.2) := by first | simpa [h1] using hk.symm | simpa [h2] using hk.symm
      refine GR.bind (GR_mapM _ kvs g s ?_) (fun cs g1 s1 _ => ?_)
      · rintro ⟨k, x⟩ hkx g' s' he
        dsimp only
        refine GR.bind (ih x (by rw [hks]; exact List.mem_map.mpr ⟨_, hkx, rfl⟩) g' s' he) (fun _ _ _ _ => GR.pure)
      · refine GR.bind (GR_alloc _ g1 s1) (fun _ _ _ _ => GR.pure)
    · refine GR.bindRO (RO_getObj _ s) ?_
      intro o ho
      split
      · refine GR.bind (ih _ (by simp [kids, ho] at hk; simp [← hk]) g s (Ext.refl s)) (fun c g1 s1 _ => ?_)
        refine GR.bind (GR_alloc _ g1 s1) (fun _ _ _ _ => GR.pure)
      · exact GR.throw (by simp)
    · exact GR.throw (by simp)
    · exact GR.throw (by simp)
    · exact GR.throw (by simp)
    · exact GR.pure
end Tengo.Proofs.C05Acyclic

import Tengo.Proofs.JsonAccept
/-!
C18, direction "scanner ⇒ grammar": whatever the control automaton accepts from `(st, σ)` is a
completion of the grammar for that configuration (`G st σ`) in which every value is nested no deeper
than the stack leaves room for (`maxNestingDepth - |σ|`); at the start configuration this says the
input is a JSON text nested at most `maxNestingDepth` deep.
-/
namespace Tengo.Proofs.JsonParse
open Tengo.Model.Json Tengo.Proofs.JsonScan Tengo.Proofs.JsonGrammar Tengo.Proofs.JsonAccept

/-- What may follow a finished value when the parse stack is `σ`, up to the end of the input. A value
that comes with `k` entries on the stack is nested at most `maxNestingDepth - k` deep. -/
inductive After (pf : Bytes → UInt64) : List PS → Bytes → Prop where
  | top {w} : WS w → After pf [] w
  | arrClose {σ w r} : WS w → After pf σ r → After pf (.arr :: σ) (w ++ 0x5D :: r)
  | arrNext {σ w w' t v r} : WS w → WS w' → ValD pf (maxNestingDepth - (σ.length + 1)) t v → After pf (.arr :: σ) r →
      After pf (.arr :: σ) (w ++ 0x2C :: (w' ++ (t ++ r)))
  | keyColon {σ w w' t v r} : WS w → WS w' → ValD pf (maxNestingDepth - (σ.length + 1)) t v → After pf (.objVal :: σ) r →
      After pf (.objKey :: σ) (w ++ 0x3A :: (w' ++ (t ++ r)))
  | objClose {σ w r} : WS w → After pf σ r → After pf (.objVal :: σ) (w ++ 0x7D :: r)
  | objNext {σ w w' k r} : WS w → WS w' → StrBody k → After pf (.objKey :: σ) r →
      After pf (.objVal :: σ) (w ++ 0x2C :: (w' ++ (quote k ++ r)))

theorem ws_cons {c : UInt8} {w : Bytes} (hc : isSpace c = true) (hw : WS w) : WS (c :: w) := by
  intro x hx
  simp only [List.mem_cons] at hx
  rcases hx with rfl | hx
  · exact hc
  · exact hw x hx

theorem after_space {pf : Bytes → UInt64} {σ : List PS} {r : Bytes} (h : After pf σ r) (c : UInt8) (hc : isSpace c = true) :
    After pf σ (c :: r) := by
  cases h with
  | top hw => exact .top (ws_cons hc hw)
  | arrClose hw h => exact .arrClose (w := c :: _) (ws_cons hc hw) h
  | arrNext hw hw' hv h => exact .arrNext (w := c :: _) (ws_cons hc hw) hw' hv h
  | keyColon hw hw' hv h => exact .keyColon (w := c :: _) (ws_cons hc hw) hw' hv h
  | objClose hw h => exact .objClose (w := c :: _) (ws_cons hc hw) h
  | objNext hw hw' hk h => exact .objNext (w := c :: _) (ws_cons hc hw) hw' hk h

/-- Completion of a value start: white space, a value (nested no deeper than the stack leaves room
for), then what may follow. -/
def GVal (pf : Bytes → UInt64) (σ : List PS) (w : Bytes) : Prop :=
  ∃ ws t v r, w = ws ++ (t ++ r) ∧ WS ws ∧ ValD pf (maxNestingDepth - σ.length) t v ∧ After pf σ r

/-- Completion of a key start. -/
def GKey (pf : Bytes → UInt64) (σ : List PS) (w : Bytes) : Prop :=
  ∃ ws k r, w = ws ++ (quote k ++ r) ∧ WS ws ∧ StrBody k ∧ After pf σ r

/-- Completion inside a string: the rest of the body, the closing quote, then what may follow. -/
def GStr (pf : Bytes → UInt64) (σ : List PS) (pre : Bytes) (w : Bytes) : Prop :=
  ∃ k r, w = k ++ 0x22 :: r ∧ StrBody (pre ++ k) ∧ After pf σ r

/-- Completion inside a number in phase `p`. -/
def GNum (pf : Bytes → UInt64) (p : NPhase) (σ : List PS) (w : Bytes) : Prop :=
  ∃ t r, w = t ++ r ∧ NumRest p t ∧ After pf σ r

/-- Completion inside a literal: the remaining letters, then what may follow. -/
def GLit (pf : Bytes → UInt64) (letters : Bytes) (σ : List PS) (w : Bytes) : Prop :=
  ∃ r, w = letters ++ r ∧ After pf σ r

/-- The completions of configuration `(st, σ)`. -/
def G (pf : Bytes → UInt64) : Step → List PS → Bytes → Prop
  | .beginValue, σ, w => GVal pf σ w
  | .beginValueOrEmpty, σ, w =>
      (∃ σ' ws r, σ = .arr :: σ' ∧ w = ws ++ 0x5D :: r ∧ WS ws ∧ After pf σ' r) ∨ GVal pf σ w
  | .beginString, σ, w => GKey pf σ w
  | .beginStringOrEmpty, σ, w =>
      (∃ p σ' ws r, σ = p :: σ' ∧ w = ws ++ 0x7D :: r ∧ WS ws ∧ After pf σ' r) ∨ GKey pf σ w
  | .endValue, σ, w => After pf σ w
  | .endTop, _, w => WS w
  | .inString, σ, w => GStr pf σ [] w
  | .inStringEsc, σ, w =>
      (∃ e k r, w = e :: (k ++ 0x22 :: r) ∧ isSimpleEsc e = true ∧ StrBody k ∧ After pf σ r) ∨
      (∃ h1 h2 h3 h4 k r, w = 0x75 :: h1 :: h2 :: h3 :: h4 :: (k ++ 0x22 :: r) ∧ isHex h1 = true ∧ isHex h2 = true ∧
        isHex h3 = true ∧ isHex h4 = true ∧ StrBody k ∧ After pf σ r)
  | .inStringEscU, σ, w =>
      ∃ h1 h2 h3 h4 k r, w = h1 :: h2 :: h3 :: h4 :: (k ++ 0x22 :: r) ∧ isHex h1 = true ∧ isHex h2 = true ∧
        isHex h3 = true ∧ isHex h4 = true ∧ StrBody k ∧ After pf σ r
  | .inStringEscU1, σ, w =>
      ∃ h2 h3 h4 k r, w = h2 :: h3 :: h4 :: (k ++ 0x22 :: r) ∧ isHex h2 = true ∧ isHex h3 = true ∧ isHex h4 = true ∧
        StrBody k ∧ After pf σ r
  | .inStringEscU12, σ, w =>
      ∃ h3 h4 k r, w = h3 :: h4 :: (k ++ 0x22 :: r) ∧ isHex h3 = true ∧ isHex h4 = true ∧ StrBody k ∧ After pf σ r
  | .inStringEscU123, σ, w =>
      ∃ h4 k r, w = h4 :: (k ++ 0x22 :: r) ∧ isHex h4 = true ∧ StrBody k ∧ After pf σ r
  | .neg, σ, w => GNum pf .neg σ w
  | .s1, σ, w => GNum pf .int σ w
  | .s0, σ, w => GNum pf .zero σ w
  | .dot, σ, w => GNum pf .dot σ w
  | .dot0, σ, w => GNum pf .frac σ w
  | .e, σ, w => GNum pf .e σ w
  | .eSign, σ, w => GNum pf .esign σ w
  | .e0, σ, w => GNum pf .exp σ w
  | .t, σ, w => GLit pf [0x72, 0x75, 0x65] σ w
  | .tr, σ, w => GLit pf [0x75, 0x65] σ w
  | .tru, σ, w => GLit pf [0x65] σ w
  | .f, σ, w => GLit pf [0x61, 0x6C, 0x73, 0x65] σ w
  | .fa, σ, w => GLit pf [0x6C, 0x73, 0x65] σ w
  | .fal, σ, w => GLit pf [0x73, 0x65] σ w
  | .fals, σ, w => GLit pf [0x65] σ w
  | .n, σ, w => GLit pf [0x75, 0x6C, 0x6C] σ w
  | .nu, σ, w => GLit pf [0x6C, 0x6C] σ w
  | .nul, σ, w => GLit pf [0x6C] σ w
  | .error, _, _ => False

/-- From "what follows" back to the grammar's `Elems` / `Members`: the text after a first element
(member) up to the matching close is the rest of an element (member) list. -/
theorem peel {pf : Bytes → UInt64} {σ0 : List PS} {r : Bytes} (h : After pf σ0 r) :
    (∀ σ, σ0 = .arr :: σ → ∀ w1 t v, WS w1 → ValD pf (maxNestingDepth - (σ.length + 1)) t v →
      ∃ e xs R, w1 ++ (t ++ r) = e ++ 0x5D :: R ∧ ElemsD pf (maxNestingDepth - (σ.length + 1)) e xs ∧ After pf σ R) ∧
    (∀ σ, σ0 = .objKey :: σ → ∀ w1 k, WS w1 → StrBody k →
      ∃ m es R, w1 ++ (quote k ++ r) = m ++ 0x7D :: R ∧ MembersD pf (maxNestingDepth - (σ.length + 1)) m es ∧ After pf σ R) ∧
    (∀ σ, σ0 = .objVal :: σ → ∀ w1 k w2 w3 t v, WS w1 → StrBody k → WS w2 → WS w3 →
      ValD pf (maxNestingDepth - (σ.length + 1)) t v →
      ∃ m es R, w1 ++ (quote k ++ (w2 ++ 0x3A :: (w3 ++ (t ++ r)))) = m ++ 0x7D :: R ∧
        MembersD pf (maxNestingDepth - (σ.length + 1)) m es ∧ After pf σ R) := by
  induction h with
  | top _ => exact ⟨(fun σ e => by cases e), (fun σ e => by cases e), (fun σ e => by cases e)⟩
  | @arrClose σ1 w r' hw h _ =>
    refine ⟨?_, (fun σ e => by cases e), (fun σ e => by cases e)⟩
    intro σ e w1 t v hw1 hv
    cases e
    exact ⟨w1 ++ t ++ w, _, r', by simp, .one hw1 hv hw, h⟩
  | @arrNext σ1 w w' t' v' r' hw hw' hv' _ ih =>
    refine ⟨?_, (fun σ e => by cases e), (fun σ e => by cases e)⟩
    intro σ e w1 t v hw1 hv
    cases e
    obtain ⟨e', xs', R, he, hel, hR⟩ := ih.1 σ1 rfl w' t' v' hw' hv'
    refine ⟨w1 ++ t ++ w ++ 0x2C :: e', _, R, ?_, .more hw1 hv hw hel, hR⟩
    simp only [List.append_assoc, List.cons_append]
    rw [he]
  | @keyColon σ1 w w' t v r' hw hw' hv _ ih =>
    refine ⟨(fun σ e => by cases e), ?_, (fun σ e => by cases e)⟩
    intro σ e w1 k hw1 hk
    cases e
    exact ih.2.2 σ1 rfl w1 k w w' t v hw1 hk hw hw' hv
  | @objClose σ1 w r' hw h _ =>
    refine ⟨(fun σ e => by cases e), (fun σ e => by cases e), ?_⟩
    intro σ e w1 k w2 w3 t v hw1 hk hw2 hw3 hv
    cases e
    exact ⟨w1 ++ quote k ++ w2 ++ 0x3A :: w3 ++ t ++ w, _, r', by simp, .one hw1 hk hw2 hw3 hv hw, h⟩
  | @objNext σ1 w w' k' r' hw hw' hk' _ ih =>
    refine ⟨(fun σ e => by cases e), (fun σ e => by cases e), ?_⟩
    intro σ e w1 k w2 w3 t v hw1 hk hw2 hw3 hv
    cases e
    obtain ⟨m', es', R, he, hml, hR⟩ := ih.2.1 σ1 rfl w' k' hw' hk'
    refine ⟨w1 ++ quote k ++ w2 ++ 0x3A :: w3 ++ t ++ w ++ 0x2C :: m', _, R, ?_, .more hw1 hk hw2 hw3 hv hw hml, hR⟩
    simp only [List.append_assoc, List.cons_append]
    rw [he]

/-! ### one step backwards, state by state -/

theorem G_popTo {pf : Bytes → UInt64} (σ : List PS) (op : Op) (w' : Bytes)
    (h : G pf (popTo σ op).step (popTo σ op).stack w') : After pf σ w' := by
  cases σ with
  | nil => exact .top (by simpa [popTo, G] using h)
  | cons p σ => simpa [popTo, goTo, G] using h

theorem back_endValue {pf : Bytes → UInt64} (σ : List PS) (c : UInt8) (w' : Bytes)
    (hne : (stateEndValue σ c).step ≠ .error)
    (h : G pf (stateEndValue σ c).step (stateEndValue σ c).stack w') : After pf σ (c :: w') := by
  cases σ with
  | nil =>
    by_cases hc : isSpace c = true
    · simp only [stateEndValue, stateEndTop, hc, goTo, G] at h
      exact .top (ws_cons hc (by simpa using h))
    · simp [stateEndValue, stateEndTop, hc] at hne
  | cons ps rest =>
    by_cases hc : isSpace c = true
    · simp only [stateEndValue, hc, if_true, goTo, G] at h
      exact after_space h c hc
    · cases ps with
      | objKey =>
        by_cases e : c = 0x3A
        · subst e
          simp only [stateEndValue, hc, goTo, G, GVal] at h
          obtain ⟨ws, t, v, r, rfl, hws, hv, hr⟩ := by simpa using h
          exact .keyColon (w := []) ws_nil hws hv hr
        · simp [stateEndValue, hc, e, failAt] at hne
      | objVal =>
        by_cases e : c = 0x2C
        · subst e
          simp only [stateEndValue, hc, goTo, G, GKey] at h
          obtain ⟨ws, k, r, rfl, hws, hk, hr⟩ := by simpa using h
          exact .objNext (w := []) ws_nil hws hk hr
        · by_cases e2 : c = 0x7D
          · subst e2
            have h' : G pf (popTo rest .endObject).step (popTo rest .endObject).stack w' := by
              simpa [stateEndValue, hc] using h
            exact .objClose (w := []) ws_nil (G_popTo rest _ w' h')
          · simp [stateEndValue, hc, e, e2, failAt] at hne
      | arr =>
        by_cases e : c = 0x2C
        · subst e
          simp only [stateEndValue, hc, goTo, G, GVal] at h
          obtain ⟨ws, t, v, r, rfl, hws, hv, hr⟩ := by simpa using h
          exact .arrNext (w := []) ws_nil hws hv hr
        · by_cases e2 : c = 0x5D
          · subst e2
            have h' : G pf (popTo rest .endArray).step (popTo rest .endArray).stack w' := by
              simpa [stateEndValue, hc] using h
            exact .arrClose (w := []) ws_nil (G_popTo rest _ w' h')
          · simp [stateEndValue, hc, e, e2, failAt] at hne

theorem gval_of_val {pf : Bytes → UInt64} {σ : List PS} {t : Bytes} {v : J} {r : Bytes}
    (hv : ValD pf (maxNestingDepth - σ.length) t v) (hr : After pf σ r) : GVal pf σ (t ++ r) :=
  ⟨[], t, v, r, rfl, ws_nil, hv, hr⟩

/-- A push that did not fail found room on the stack. -/
theorem pushTo_room {st : Step} {p : PS} {σ : List PS} {op : Op} (hne : (pushTo st p σ op).step ≠ .error) :
    σ.length < maxNestingDepth := by
  apply Decidable.byContradiction
  intro hge
  rw [pushTo_deep _ _ _ _ (by omega)] at hne
  exact hne rfl

theorem back_beginValue {pf : Bytes → UInt64} (σ : List PS) (c : UInt8) (w' : Bytes)
    (hne : (stateBeginValue σ c).step ≠ .error)
    (h : G pf (stateBeginValue σ c).step (stateBeginValue σ c).stack w') : GVal pf σ (c :: w') := by
  unfold stateBeginValue at hne h
  by_cases hc : isSpace c = true
  · simp only [hc, if_true, goTo, G, GVal] at h
    obtain ⟨ws, t, v, r, rfl, hws, hv, hr⟩ := h
    exact ⟨c :: ws, t, v, r, rfl, ws_cons hc hws, hv, hr⟩
  simp only [hc, Bool.false_eq_true, if_false] at hne h
  by_cases e1 : c = 0x7B
  · subst e1
    simp only [if_true] at hne h
    have hlt := pushTo_room hne
    have hbud : maxNestingDepth - σ.length = (maxNestingDepth - (σ.length + 1)) + 1 := by omega
    rw [pushTo_ok _ _ _ _ hlt] at h
    simp only [goTo, G] at h
    rcases h with ⟨p, σ', ws, r, hσ, rfl, hws, hr⟩ | ⟨ws, k, r, rfl, hws, hk, hr⟩
    · cases hσ
      have hv : ValD pf (maxNestingDepth - σ.length) (0x7B :: ws ++ [0x7D]) (.obj .nil) := by
        rw [hbud]; exact .objEmpty hws
      have := gval_of_val hv hr
      simpa using this
    · obtain ⟨m, es, R, he, hm, hR⟩ := (peel hr).2.1 σ rfl ws k hws hk
      have hv : ValD pf (maxNestingDepth - σ.length) (0x7B :: m ++ [0x7D]) (.obj (insertAll es .nil)) := by
        rw [hbud]; exact .obj hm
      have := gval_of_val hv hR
      rw [he]
      simpa using this
  simp only [e1, if_false] at hne h
  by_cases e2 : c = 0x5B
  · subst e2
    simp only [if_true] at hne h
    have hlt := pushTo_room hne
    have hbud : maxNestingDepth - σ.length = (maxNestingDepth - (σ.length + 1)) + 1 := by omega
    rw [pushTo_ok _ _ _ _ hlt] at h
    simp only [goTo, G] at h
    rcases h with ⟨σ', ws, r, hσ, rfl, hws, hr⟩ | ⟨ws, t, v, r, rfl, hws, hv, hr⟩
    · cases hσ
      have hv : ValD pf (maxNestingDepth - σ.length) (0x5B :: ws ++ [0x5D]) (.arr .nil) := by
        rw [hbud]; exact .arrEmpty hws
      have := gval_of_val hv hr
      simpa using this
    · obtain ⟨e, xs, R, he, hel, hR⟩ := (peel hr).1 σ rfl ws t v hws hv
      have hv' : ValD pf (maxNestingDepth - σ.length) (0x5B :: e ++ [0x5D]) (.arr xs) := by
        rw [hbud]; exact .arr hel
      have := gval_of_val hv' hR
      rw [he]
      simpa using this
  simp only [e2, if_false] at hne h
  by_cases e3 : c = 0x22
  · subst e3
    simp only [if_true, goTo, G, GStr, List.nil_append] at h
    obtain ⟨k, r, rfl, hk, hr⟩ := h
    have := gval_of_val (ValD.str (pf := pf) hk) hr
    simpa [quote] using this
  simp only [e3, if_false] at hne h
  by_cases e4 : c = 0x2D
  · subst e4
    simp only [if_true, goTo, G, GNum] at h
    obtain ⟨t, r, rfl, ht, hr⟩ := h
    exact gval_of_val (ValD.num (pf := pf) (.neg ht)) hr
  simp only [e4, if_false] at hne h
  by_cases e5 : c = 0x30
  · subst e5
    simp only [if_true, goTo, G, GNum] at h
    obtain ⟨t, r, rfl, ht, hr⟩ := h
    exact gval_of_val (ValD.num (pf := pf) (.zero ht)) hr
  simp only [e5, if_false] at hne h
  by_cases e6 : c = 0x74
  · subst e6
    simp only [if_true, goTo, G, GLit] at h
    obtain ⟨r, rfl, hr⟩ := h
    exact gval_of_val (ValD.true (pf := pf)) hr
  simp only [e6, if_false] at hne h
  by_cases e7 : c = 0x66
  · subst e7
    simp only [if_true, goTo, G, GLit] at h
    obtain ⟨r, rfl, hr⟩ := h
    exact gval_of_val (ValD.false (pf := pf)) hr
  simp only [e7, if_false] at hne h
  by_cases e8 : c = 0x6E
  · subst e8
    simp only [if_true, goTo, G, GLit] at h
    obtain ⟨r, rfl, hr⟩ := h
    exact gval_of_val (ValD.null (pf := pf)) hr
  simp only [e8, if_false] at hne h
  by_cases e9 : isDigit19 c = true
  · simp only [e9, if_true, goTo, G, GNum] at h
    obtain ⟨t, r, rfl, ht, hr⟩ := h
    exact gval_of_val (ValD.num (pf := pf) (.int e9 ht)) hr
  · simp [e9, failAt] at hne

/-- Number states. -/
theorem back_num_end {pf : Bytes → UInt64} (p : NPhase) (hend : NumRest p []) (σ : List PS) (c : UInt8) (w' : Bytes)
    (hne : (stateEndValue σ c).step ≠ .error)
    (h : G pf (stateEndValue σ c).step (stateEndValue σ c).stack w') : GNum pf p σ (c :: w') :=
  ⟨[], c :: w', rfl, hend, back_endValue σ c w' hne h⟩

theorem gnum_cons {pf : Bytes → UInt64} {p q : NPhase} {σ : List PS} {w' : Bytes} (c : UInt8)
    (hstep : ∀ t, NumRest q t → NumRest p (c :: t)) (h : GNum pf q σ w') : GNum pf p σ (c :: w') := by
  obtain ⟨t, r, rfl, ht, hr⟩ := h
  exact ⟨c :: t, r, rfl, hstep t ht, hr⟩

theorem back_s0 {pf : Bytes → UInt64} (σ : List PS) (c : UInt8) (w' : Bytes) (hne : (state0 σ c).step ≠ .error)
    (h : G pf (state0 σ c).step (state0 σ c).stack w') : GNum pf .zero σ (c :: w') := by
  unfold state0 at hne h
  by_cases e1 : c = 0x2E
  · subst e1; simp only [if_true, goTo, G] at h; exact gnum_cons _ (fun t ht => .zeroDot ht) h
  simp only [e1, if_false] at hne h
  by_cases e2 : (c = 0x65 ∨ c = 0x45)
  · have : (decide (c = 0x65) || decide (c = 0x45)) = true := by simpa using e2
    simp only [this, if_true, goTo, G] at h
    exact gnum_cons _ (fun t ht => .zeroE e2 ht) h
  · have : (decide (c = 0x65) || decide (c = 0x45)) = false := by simpa using e2
    simp only [this, Bool.false_eq_true, if_false] at hne h
    exact back_num_end .zero .zeroEnd σ c w' hne h

theorem back_s1 {pf : Bytes → UInt64} (σ : List PS) (c : UInt8) (w' : Bytes) (hne : (state1 σ c).step ≠ .error)
    (h : G pf (state1 σ c).step (state1 σ c).stack w') : GNum pf .int σ (c :: w') := by
  unfold state1 at hne h
  by_cases hd : isDigit c = true
  · simp only [hd, if_true, goTo, G] at h; exact gnum_cons _ (fun t ht => .intDigit hd ht) h
  simp only [hd, Bool.false_eq_true, if_false] at hne h
  unfold state0 at hne h
  by_cases e1 : c = 0x2E
  · subst e1; simp only [if_true, goTo, G] at h; exact gnum_cons _ (fun t ht => .intDot ht) h
  simp only [e1, if_false] at hne h
  by_cases e2 : (c = 0x65 ∨ c = 0x45)
  · have : (decide (c = 0x65) || decide (c = 0x45)) = true := by simpa using e2
    simp only [this, if_true, goTo, G] at h
    exact gnum_cons _ (fun t ht => .intE e2 ht) h
  · have : (decide (c = 0x65) || decide (c = 0x45)) = false := by simpa using e2
    simp only [this, Bool.false_eq_true, if_false] at hne h
    exact back_num_end .int .intEnd σ c w' hne h

theorem back_neg {pf : Bytes → UInt64} (σ : List PS) (c : UInt8) (w' : Bytes) (hne : (stateNeg σ c).step ≠ .error)
    (h : G pf (stateNeg σ c).step (stateNeg σ c).stack w') : GNum pf .neg σ (c :: w') := by
  unfold stateNeg at hne h
  by_cases e1 : c = 0x30
  · subst e1; simp only [if_true, goTo, G] at h; exact gnum_cons _ (fun t ht => .negZero ht) h
  simp only [e1, if_false] at hne h
  by_cases hd : isDigit19 c = true
  · simp only [hd, if_true, goTo, G] at h; exact gnum_cons _ (fun t ht => .negInt hd ht) h
  · simp [hd, failAt] at hne

theorem back_dot {pf : Bytes → UInt64} (σ : List PS) (c : UInt8) (w' : Bytes) (hne : (stateDot σ c).step ≠ .error)
    (h : G pf (stateDot σ c).step (stateDot σ c).stack w') : GNum pf .dot σ (c :: w') := by
  unfold stateDot at hne h
  by_cases hd : isDigit c = true
  · simp only [hd, if_true, goTo, G] at h; exact gnum_cons _ (fun t ht => .dotDigit hd ht) h
  · simp [hd, failAt] at hne

theorem back_dot0 {pf : Bytes → UInt64} (σ : List PS) (c : UInt8) (w' : Bytes) (hne : (stateDot0 σ c).step ≠ .error)
    (h : G pf (stateDot0 σ c).step (stateDot0 σ c).stack w') : GNum pf .frac σ (c :: w') := by
  unfold stateDot0 at hne h
  by_cases hd : isDigit c = true
  · simp only [hd, if_true, goTo, G] at h; exact gnum_cons _ (fun t ht => .fracDigit hd ht) h
  simp only [hd, Bool.false_eq_true, if_false] at hne h
  by_cases e2 : (c = 0x65 ∨ c = 0x45)
  · have : (decide (c = 0x65) || decide (c = 0x45)) = true := by simpa using e2
    simp only [this, if_true, goTo, G] at h
    exact gnum_cons _ (fun t ht => .fracE e2 ht) h
  · have : (decide (c = 0x65) || decide (c = 0x45)) = false := by simpa using e2
    simp only [this, Bool.false_eq_true, if_false] at hne h
    exact back_num_end .frac .fracEnd σ c w' hne h

theorem back_eSign {pf : Bytes → UInt64} (σ : List PS) (c : UInt8) (w' : Bytes) (hne : (stateESign σ c).step ≠ .error)
    (h : G pf (stateESign σ c).step (stateESign σ c).stack w') : GNum pf .esign σ (c :: w') := by
  unfold stateESign at hne h
  by_cases hd : isDigit c = true
  · simp only [hd, if_true, goTo, G] at h; exact gnum_cons _ (fun t ht => .esignDigit hd ht) h
  · simp [hd, failAt] at hne

theorem back_e {pf : Bytes → UInt64} (σ : List PS) (c : UInt8) (w' : Bytes) (hne : (stateE σ c).step ≠ .error)
    (h : G pf (stateE σ c).step (stateE σ c).stack w') : GNum pf .e σ (c :: w') := by
  unfold stateE at hne h
  by_cases e2 : (c = 0x2B ∨ c = 0x2D)
  · have : (decide (c = 0x2B) || decide (c = 0x2D)) = true := by simpa using e2
    simp only [this, if_true, goTo, G] at h
    exact gnum_cons _ (fun t ht => .eSign e2 ht) h
  · have : (decide (c = 0x2B) || decide (c = 0x2D)) = false := by simpa using e2
    simp only [this, Bool.false_eq_true, if_false] at hne h
    unfold stateESign at hne h
    by_cases hd : isDigit c = true
    · simp only [hd, if_true, goTo, G] at h; exact gnum_cons _ (fun t ht => .eDigit hd ht) h
    · simp [hd, failAt] at hne

theorem back_e0 {pf : Bytes → UInt64} (σ : List PS) (c : UInt8) (w' : Bytes) (hne : (stateE0 σ c).step ≠ .error)
    (h : G pf (stateE0 σ c).step (stateE0 σ c).stack w') : GNum pf .exp σ (c :: w') := by
  unfold stateE0 at hne h
  by_cases hd : isDigit c = true
  · simp only [hd, if_true, goTo, G] at h; exact gnum_cons _ (fun t ht => .expDigit hd ht) h
  simp only [hd, Bool.false_eq_true, if_false] at hne h
  exact back_num_end .exp .expEnd σ c w' hne h

/-! strings -/

theorem back_inString {pf : Bytes → UInt64} (σ : List PS) (c : UInt8) (w' : Bytes) (hne : (stateInString σ c).step ≠ .error)
    (h : G pf (stateInString σ c).step (stateInString σ c).stack w') : GStr pf σ [] (c :: w') := by
  unfold stateInString at hne h
  by_cases e1 : c = 0x22
  · subst e1
    simp only [if_true, goTo, G] at h
    exact ⟨[], w', rfl, .nil, h⟩
  simp only [e1, if_false] at hne h
  by_cases e2 : c = 0x5C
  · subst e2
    simp only [if_true, goTo, G] at h
    rcases h with ⟨e, k, r, rfl, he, hk, hr⟩ | ⟨h1, h2, h3, h4, k, r, rfl, g1, g2, g3, g4, hk, hr⟩
    · exact ⟨0x5C :: e :: k, r, rfl, .esc he hk, hr⟩
    · exact ⟨0x5C :: 0x75 :: h1 :: h2 :: h3 :: h4 :: k, r, rfl, .uni g1 g2 g3 g4 hk, hr⟩
  simp only [e2, if_false] at hne h
  by_cases e3 : c.toNat < 0x20
  · simp [e3, failAt] at hne
  · simp only [e3, if_false, goTo, G, GStr, List.nil_append] at h
    obtain ⟨k, r, rfl, hk, hr⟩ := h
    exact ⟨c :: k, r, rfl, .plain e3 e1 e2 hk, hr⟩

theorem back_inStringEsc {pf : Bytes → UInt64} (σ : List PS) (c : UInt8) (w' : Bytes)
    (hne : (stateInStringEsc σ c).step ≠ .error)
    (h : G pf (stateInStringEsc σ c).step (stateInStringEsc σ c).stack w') : G pf .inStringEsc σ (c :: w') := by
  unfold stateInStringEsc at hne h
  by_cases e1 : isSimpleEsc c = true
  · simp only [e1, if_true, goTo, G, GStr, List.nil_append] at h
    obtain ⟨k, r, rfl, hk, hr⟩ := h
    exact .inl ⟨c, k, r, rfl, e1, hk, hr⟩
  simp only [e1, Bool.false_eq_true, if_false] at hne h
  by_cases e2 : c = 0x75
  · subst e2
    simp only [if_true, goTo, G] at h
    obtain ⟨h1, h2, h3, h4, k, r, rfl, g1, g2, g3, g4, hk, hr⟩ := h
    exact .inr ⟨h1, h2, h3, h4, k, r, rfl, g1, g2, g3, g4, hk, hr⟩
  · simp [e2, failAt] at hne

theorem hex_ne {nx : Step} {σ : List PS} {c : UInt8} (hne : (stateHex nx σ c).step ≠ .error) (hnx : nx ≠ .error) :
    isHex c = true ∧ stateHex nx σ c = goTo nx σ .continue_ := by
  unfold stateHex at hne ⊢
  by_cases e : isHex c = true
  · simp [e]
  · simp [e, failAt] at hne

/-! literals -/

theorem back_lit {pf : Bytes → UInt64} (want : UInt8) (nx : Step) (ctx : String) (σ : List PS) (c : UInt8) (w' : Bytes)
    (hnx : nx ≠ .error) (hne : (stateLit want nx ctx σ c).step ≠ .error) :
    c = want ∧ stateLit want nx ctx σ c = goTo nx σ .continue_ := by
  unfold stateLit at hne ⊢
  by_cases e : c = want
  · simp [e]
  · simp [e, failAt] at hne

theorem glit_cons {pf : Bytes → UInt64} {ls : Bytes} {σ : List PS} {w' : Bytes} (c : UInt8) (h : GLit pf ls σ w') :
    GLit pf (c :: ls) σ (c :: w') := by
  obtain ⟨r, rfl, hr⟩ := h
  exact ⟨r, rfl, hr⟩

/-! keys -/

theorem back_beginString {pf : Bytes → UInt64} (σ : List PS) (c : UInt8) (w' : Bytes)
    (hne : (stateBeginString σ c).step ≠ .error)
    (h : G pf (stateBeginString σ c).step (stateBeginString σ c).stack w') : GKey pf σ (c :: w') := by
  unfold stateBeginString at hne h
  by_cases hc : isSpace c = true
  · simp only [hc, if_true, goTo, G, GKey] at h
    obtain ⟨ws, k, r, rfl, hws, hk, hr⟩ := h
    exact ⟨c :: ws, k, r, rfl, ws_cons hc hws, hk, hr⟩
  simp only [hc, Bool.false_eq_true, if_false] at hne h
  by_cases e : c = 0x22
  · subst e
    simp only [if_true, goTo, G, GStr, List.nil_append] at h
    obtain ⟨k, r, rfl, hk, hr⟩ := h
    exact ⟨[], k, r, by simp [quote], ws_nil, hk, hr⟩
  · simp [e, failAt] at hne

/-- **Scanner ⇒ grammar**, for every configuration: an accepted input is a completion. -/
theorem acc_G (pf : Bytes → UInt64) : ∀ (w : Bytes) (st : Step) (σ : List PS), accB st σ w = true → G pf st σ w := by
  intro w
  induction w with
  | nil =>
    intro st σ h
    simp only [accB, eofOK, Bool.or_eq_true, beq_iff_eq] at h
    rcases h with rfl | h
    · exact ws_nil
    · have top_nil : ∀ (σ : List PS), (stateEndValue σ 0x20).endTop = true → σ = [] := by
        intro σ h; cases σ with
        | nil => rfl
        | cons p σ => simp [stateEndValue, isSpace, goTo] at h
      cases st <;> simp only [delta] at h
      case endValue => have := top_nil σ h; subst this; exact .top ws_nil
      case s1 =>
        have : state1 σ 0x20 = stateEndValue σ 0x20 := by simp [state1, state0, isDigit]
        rw [this] at h; have := top_nil σ h; subst this; exact ⟨[], [], rfl, .intEnd, .top ws_nil⟩
      case s0 =>
        have : state0 σ 0x20 = stateEndValue σ 0x20 := by simp [state0]
        rw [this] at h; have := top_nil σ h; subst this; exact ⟨[], [], rfl, .zeroEnd, .top ws_nil⟩
      case dot0 =>
        have : stateDot0 σ 0x20 = stateEndValue σ 0x20 := by simp [stateDot0, isDigit]
        rw [this] at h; have := top_nil σ h; subst this; exact ⟨[], [], rfl, .fracEnd, .top ws_nil⟩
      case e0 =>
        have : stateE0 σ 0x20 = stateEndValue σ 0x20 := by simp [stateE0, isDigit]
        rw [this] at h; have := top_nil σ h; subst this; exact ⟨[], [], rfl, .expEnd, .top ws_nil⟩
      all_goals
        first
        | (simp [stateBeginValueOrEmpty, stateBeginValue, stateBeginStringOrEmpty, stateBeginString, stateEndTop, stateInString,
            stateInStringEsc, stateHex, stateNeg, stateDot, stateE, stateESign, stateLit, isSpace, isSimpleEsc, isHex, isDigit,
            isDigit19, goTo, failAt] at h; done)
  | cons c w' ih =>
    intro st σ h
    simp only [accB, Bool.and_eq_true, bne_iff_ne, ne_eq] at h
    obtain ⟨hne, hacc⟩ := h
    have hG := ih _ _ hacc
    cases st <;> simp only [delta] at hne hG
    case beginValue => exact back_beginValue σ c w' hne hG
    case beginValueOrEmpty =>
      unfold stateBeginValueOrEmpty at hne hG
      by_cases hc : isSpace c = true
      · simp only [hc, if_true, goTo, G] at hG
        rcases hG with ⟨σ', ws, r, hσ, rfl, hws, hr⟩ | ⟨ws, t, v, r, rfl, hws, hv, hr⟩
        · exact .inl ⟨σ', c :: ws, r, hσ, rfl, ws_cons hc hws, hr⟩
        · exact .inr ⟨c :: ws, t, v, r, rfl, ws_cons hc hws, hv, hr⟩
      simp only [hc, Bool.false_eq_true, if_false] at hne hG
      by_cases e : c = 0x5D
      · subst e
        simp only [if_true] at hne hG
        cases σ with
        | nil => simp [stateEndValue, stateEndTop, isSpace] at hne
        | cons p rest =>
          cases p with
          | arr =>
            have h' : G pf (popTo rest .endArray).step (popTo rest .endArray).stack w' := by
              simpa [stateEndValue, isSpace] using hG
            exact .inl ⟨rest, [], w', rfl, rfl, ws_nil, G_popTo rest _ w' h'⟩
          | objKey => simp [stateEndValue, isSpace, failAt] at hne
          | objVal => simp [stateEndValue, isSpace, failAt] at hne
      · simp only [e, if_false] at hne hG
        exact .inr (back_beginValue σ c w' hne hG)
    case beginString => exact back_beginString σ c w' hne hG
    case beginStringOrEmpty =>
      unfold stateBeginStringOrEmpty at hne hG
      by_cases hc : isSpace c = true
      · simp only [hc, if_true, goTo, G] at hG
        rcases hG with ⟨p, σ', ws, r, hσ, rfl, hws, hr⟩ | ⟨ws, k, r, rfl, hws, hk, hr⟩
        · exact .inl ⟨p, σ', c :: ws, r, hσ, rfl, ws_cons hc hws, hr⟩
        · exact .inr ⟨c :: ws, k, r, rfl, ws_cons hc hws, hk, hr⟩
      simp only [hc, Bool.false_eq_true, if_false] at hne hG
      by_cases e : c = 0x7D
      · subst e
        simp only [if_true] at hne hG
        cases σ with
        | nil => simp [failAt] at hne
        | cons p rest =>
          have h' : G pf (popTo rest .endObject).step (popTo rest .endObject).stack w' := by
            simpa [stateEndValue, isSpace] using hG
          exact .inl ⟨p, rest, [], w', rfl, rfl, ws_nil, G_popTo rest _ w' h'⟩
      · simp only [e, if_false] at hne hG
        exact .inr (back_beginString σ c w' hne hG)
    case endValue => exact back_endValue σ c w' hne hG
    case endTop =>
      unfold stateEndTop at hne hG
      by_cases hc : isSpace c = true
      · simp only [hc, Bool.not_true, Bool.false_eq_true, if_false, goTo, G] at hG
        exact ws_cons hc hG
      · simp [hc] at hne
    case inString => exact back_inString σ c w' hne hG
    case inStringEsc => exact back_inStringEsc σ c w' hne hG
    case inStringEscU =>
      obtain ⟨hx, heq⟩ := hex_ne hne (by decide)
      rw [heq] at hG
      obtain ⟨h2, h3, h4, k, r, rfl, g2, g3, g4, hk, hr⟩ := hG
      exact ⟨c, h2, h3, h4, k, r, rfl, hx, g2, g3, g4, hk, hr⟩
    case inStringEscU1 =>
      obtain ⟨hx, heq⟩ := hex_ne hne (by decide)
      rw [heq] at hG
      obtain ⟨h3, h4, k, r, rfl, g3, g4, hk, hr⟩ := hG
      exact ⟨c, h3, h4, k, r, rfl, hx, g3, g4, hk, hr⟩
    case inStringEscU12 =>
      obtain ⟨hx, heq⟩ := hex_ne hne (by decide)
      rw [heq] at hG
      obtain ⟨h4, k, r, rfl, g4, hk, hr⟩ := hG
      exact ⟨c, h4, k, r, rfl, hx, g4, hk, hr⟩
    case inStringEscU123 =>
      obtain ⟨hx, heq⟩ := hex_ne hne (by decide)
      rw [heq] at hG
      obtain ⟨k, r, rfl, hk, hr⟩ := hG
      exact ⟨c, k, r, rfl, hx, by simpa using hk, hr⟩
    case neg => exact back_neg σ c w' hne hG
    case s1 => exact back_s1 σ c w' hne hG
    case s0 => exact back_s0 σ c w' hne hG
    case dot => exact back_dot σ c w' hne hG
    case dot0 => exact back_dot0 σ c w' hne hG
    case e => exact back_e σ c w' hne hG
    case eSign => exact back_eSign σ c w' hne hG
    case e0 => exact back_e0 σ c w' hne hG
    case t =>
      obtain ⟨rfl, heq⟩ := back_lit (pf := pf) _ _ _ σ c w' (by decide) hne
      rw [heq] at hG; exact glit_cons _ hG
    case tr =>
      obtain ⟨rfl, heq⟩ := back_lit (pf := pf) _ _ _ σ c w' (by decide) hne
      rw [heq] at hG; exact glit_cons _ hG
    case tru =>
      obtain ⟨rfl, heq⟩ := back_lit (pf := pf) _ _ _ σ c w' (by decide) hne
      rw [heq] at hG; exact ⟨w', rfl, hG⟩
    case f =>
      obtain ⟨rfl, heq⟩ := back_lit (pf := pf) _ _ _ σ c w' (by decide) hne
      rw [heq] at hG; exact glit_cons _ hG
    case fa =>
      obtain ⟨rfl, heq⟩ := back_lit (pf := pf) _ _ _ σ c w' (by decide) hne
      rw [heq] at hG; exact glit_cons _ hG
    case fal =>
      obtain ⟨rfl, heq⟩ := back_lit (pf := pf) _ _ _ σ c w' (by decide) hne
      rw [heq] at hG; exact glit_cons _ hG
    case fals =>
      obtain ⟨rfl, heq⟩ := back_lit (pf := pf) _ _ _ σ c w' (by decide) hne
      rw [heq] at hG; exact ⟨w', rfl, hG⟩
    case n =>
      obtain ⟨rfl, heq⟩ := back_lit (pf := pf) _ _ _ σ c w' (by decide) hne
      rw [heq] at hG; exact glit_cons _ hG
    case nu =>
      obtain ⟨rfl, heq⟩ := back_lit (pf := pf) _ _ _ σ c w' (by decide) hne
      rw [heq] at hG; exact glit_cons _ hG
    case nul =>
      obtain ⟨rfl, heq⟩ := back_lit (pf := pf) _ _ _ σ c w' (by decide) hne
      rw [heq] at hG; exact ⟨w', rfl, hG⟩
    case error => exact absurd trivial hne

/-- **Scanner ⇒ grammar.** What `checkValid`'s automaton accepts is a JSON text nested at most
`maxNestingDepth` deep. -/
theorem accB_json (pf : Bytes → UInt64) (b : Bytes) (h : accB .beginValue [] b = true) :
    ∃ v, JsonD pf maxNestingDepth b v := by
  obtain ⟨ws, t, v, r, rfl, hws, hv, hr⟩ := acc_G pf b .beginValue [] h
  cases hr with
  | top hw => exact ⟨v, ws, t, _, by simp, hws, hv, hw⟩

end Tengo.Proofs.JsonParse

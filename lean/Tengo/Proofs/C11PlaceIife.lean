import Tengo.Proofs.C11PlaceMain
import Tengo.Proofs.F3Expr
/-!
C11, PLACEMENT global ↦ local on fragment F3, the IMMEDIATELY INVOKED function literal (single-site IIFE):

`progI n L body`:  `(func() { x_0 := r_0; …; x_{n-1} := r_{n-1};  body[x_i local];  r_0 = x_0; …; r_{n-1} = x_{n-1} })()`

— the function literal (constant `L`) is called where it stands, NO global slot holds the function. Same layers as
`C11PlaceMain.lean` for `progL`:

* `exec_progI`: the main program (call the literal) in terms of the function body;
* `progI_at`: in terms of the ORIGINAL statements on the globals (`fnBody_run` with `gL := g`);
* `placementI_forward` / `placementI_progress` / `placementI_backward`: the answers of `progG body` and of
  `progI n L body` correspond by `tP n g` (final globals `mkG n g g'`: the original's below `n`, the start globals
  from `n` on — no function slot is written).
-/
set_option linter.unusedVariables false
set_option linter.unusedSimpArgs false
namespace Tengo.Proofs.C11Place
open Tengo.Model Tengo.Model.F3
open Tengo.Model.F0 (Sem upd)
variable {V : Type} {E : Env V}

/-- The variables are locals of a function literal that is called where it stands (no global slot for it). -/
def progI (n L : Nat) (body : Stms) : Prog :=
  { fns := fun k => if k = L then some (fnDef n body) else none,
    main := .cons (.expr (.call (.lit L) .nil)) .nil }

theorem exec_progI (n L : Nat) (body : Stms) (hfn : E.asFn (E.cs L) = some L) (F : Nat) (g : Nat → V) :
    exec E (progI n L body) (F + 4) g =
      tCall (execSs E (progI n L body) F (fnBody n body) g (fun _ => none)) := by
  have hfns : (progI n L body).fns L = some (fnDef n body) := by simp only [progI, if_true]
  have hmain : (progI n L body).main = .cons (.expr (.call (.lit L) .nil)) .nil := rfl
  simp only [exec, hmain, execSs, execS, evalE, evalEs, callFn, hfn, hfns, fnDef, List.length_nil, ne_eq,
    not_true_eq_false, if_false, bindArgs_nil]
  cases execSs E (progI n L body) F (fnBody n body) g (fun _ => none) <;>
    simp only [tCall, ERes.toRes]

/-- The IIFE program with fuel `F + 4`, `F ≥ n + 2`, in terms of the original's statements with fuel `F - n`. -/
theorem progI_at (n L : Nat) (body : Stms) (hc : g2Ss n body = true) (hfn : E.asFn (E.cs L) = some L)
    (F : Nat) (hF : n + 2 ≤ F) (g : Nat → V) :
    exec E (progI n L body) (F + 4) g =
      tCall (match tS n g (fun _ => none)
          (execSs E (progG body) (F - n) body g (fun _ => none)) with
        | .done g1 l1 => execSs E (progI n L body) (F - n - len (renSs body)) (epiFrom 0 n) g1 l1
        | r => r) := by
  rw [exec_progI n L body hfn F g,
    fnBody_run (progI n L body) (progG body) n body hc F hF g g (fun i hi => rfl) (fun _ => none)]
  rfl

/-- **Forward**: an answer of the original is an answer of the IIFE program. -/
theorem placementI_forward (n L : Nat) (body : Stms) (hc : g2Ss n body = true) (hfn : E.asFn (E.cs L) = some L)
    (f : Nat) (g : Nat → V) (r : PRes V) (hr : exec E (progG body) f g = r) (hne : r ≠ .out) :
    ∃ F, exec E (progI n L body) F g = tP n g r := by
  refine ⟨f + n + len (renSs body) + (n + 2) + 4, ?_⟩
  rw [progI_at n L body hc hfn _ (by omega) g]
  have hfu : f + n + len (renSs body) + (n + 2) - n = f + (len (renSs body) + (n + 2)) := by omega
  have hfe : f + (len (renSs body) + (n + 2)) - len (renSs body) = f + (n + 2) := by omega
  rw [hfu, hfe]
  rw [exec_progG] at hr
  have hmono := fun r0 (h0 : execSs E (progG body) f body g (fun _ => none) = r0) (hn0 : r0 ≠ .out) =>
    execSs_mono E (progG body) (Nat.le_add_right f (len (renSs body) + (n + 2))) h0 hn0
  cases h0 : execSs E (progG body) f body g (fun _ => none) with
  | done g' lx =>
    rw [hmono _ h0 (by simp)]
    rw [h0] at hr
    subst hr
    simp only [tS]
    have he := run_epi (E := E) (progI n L body) n g g' (fun _ => none) n 0 (f + (n + 2))
      (by omega) (by omega)
    rw [mkG_zero, Nat.zero_add] at he
    rw [he]
    simp only [tCall, tP]
  | brk g' lx => rw [hmono _ h0 (by simp)]; rw [h0] at hr; subst hr; simp only [tS, tCall, tP]
  | cont g' lx => rw [hmono _ h0 (by simp)]; rw [h0] at hr; subst hr; simp only [tS, tCall, tP]
  | ret v g' => rw [hmono _ h0 (by simp)]; rw [h0] at hr; subst hr; simp only [tS, tCall, tP]
  | err => rw [hmono _ h0 (by simp)]; rw [h0] at hr; subst hr; simp only [tS, tCall, tP]
  | bad => rw [hmono _ h0 (by simp)]; rw [h0] at hr; subst hr; simp only [tS, tCall, tP]
  | out => rw [h0] at hr; subst hr; exact absurd rfl hne

/-- **Progress**: if the IIFE program answers (is not out of fuel), the original answers with some fuel. -/
theorem placementI_progress (n L : Nat) (body : Stms) (hc : g2Ss n body = true) (hfn : E.asFn (E.cs L) = some L)
    (F : Nat) (g : Nat → V) (hne : exec E (progI n L body) F g ≠ .out) :
    ∃ f, exec E (progG body) f g ≠ .out := by
  refine ⟨F + (n + 2) - n, ?_⟩
  have h1 := exec_mono E (progI n L body) (show F ≤ F + (n + 2) + 4 by omega) rfl hne
  rw [progI_at n L body hc hfn _ (by omega) g] at h1
  rw [exec_progG]
  intro ho
  cases h0 : execSs E (progG body) (F + (n + 2) - n) body g (fun _ => none) with
  | out =>
    rw [h0] at h1
    simp only [tS, tCall] at h1
    exact hne h1.symm
  | done g' lx => rw [h0] at ho; cases ho
  | brk g' lx => rw [h0] at ho; cases ho
  | cont g' lx => rw [h0] at ho; cases ho
  | ret v g' => rw [h0] at ho; cases ho
  | err => rw [h0] at ho; cases ho
  | bad => rw [h0] at ho; cases ho

/-- **Backward**: an answer of the IIFE program is `tP n g` of an answer of the original. -/
theorem placementI_backward (n L : Nat) (body : Stms) (hc : g2Ss n body = true) (hfn : E.asFn (E.cs L) = some L)
    (F : Nat) (g : Nat → V) (r' : PRes V) (hr : exec E (progI n L body) F g = r') (hne : r' ≠ .out) :
    ∃ f r, exec E (progG body) f g = r ∧ r ≠ .out ∧ r' = tP n g r := by
  obtain ⟨f, hf⟩ := placementI_progress n L body hc hfn F g (by rw [hr]; exact hne)
  refine ⟨f, _, rfl, hf, ?_⟩
  obtain ⟨F', hF'⟩ := placementI_forward n L body hc hfn f g _ rfl hf
  have hne' : tP n g (exec E (progG body) f g) ≠ .out := by
    cases h : exec E (progG body) f g with
    | out => exact absurd h hf
    | done g' => simp [tP]
    | err => simp [tP]
    | bad => simp [tP]
  have a := exec_mono E (progI n L body) (Nat.le_max_left F F') hr hne
  have b := exec_mono E (progI n L body) (Nat.le_max_right F F') hF' hne'
  rw [← a, b]

/-! ### `ProgOk` (the side condition of `program_correct_F3`) of both placements, from the class -/

mutual
  /-- Statements of the class write no local slot at all. -/
  theorem slotsS_g2 (n : Nat) : ∀ (s : Stm), g2S n s = true → slotsS 0 s = true
    | .expr _, _ => rfl
    | .assign _ _, _ => rfl
    | .defl _ _, h => by simp only [g2S] at h; cases h
    | .setl _ _, h => by simp only [g2S] at h; cases h
    | .ifs _ b, h => by
      simp only [g2S, Bool.and_eq_true] at h
      simp only [slotsS]; exact slotsSs_g2 n b h.2
    | .ifelse _ b e, h => by
      simp only [g2S, Bool.and_eq_true] at h
      simp only [slotsS, Bool.and_eq_true]; exact ⟨slotsSs_g2 n b h.1.2, slotsSs_g2 n e h.2⟩
    | .whil _ b, h => by
      simp only [g2S, Bool.and_eq_true] at h
      simp only [slotsS]; exact slotsSs_g2 n b h.2
    | .forever b, h => by
      simp only [g2S] at h
      simp only [slotsS]; exact slotsSs_g2 n b h
    | .for3 _ b p, h => by
      simp only [g2S, Bool.and_eq_true] at h
      simp only [slotsS, Bool.and_eq_true]; exact ⟨slotsSs_g2 n b h.1.2, slotsS_g2 n p h.2⟩
    | .brk, _ => rfl
    | .cont, _ => rfl
    | .ret _, _ => rfl
    | .ret0, _ => rfl
  theorem slotsSs_g2 (n : Nat) : ∀ (ss : Stms), g2Ss n ss = true → slotsSs 0 ss = true
    | .nil, _ => rfl
    | .cons s ss, h => by
      simp only [g2Ss, Bool.and_eq_true] at h
      simp only [slotsSs, Bool.and_eq_true]; exact ⟨slotsS_g2 n s h.1, slotsSs_g2 n ss h.2⟩
end

mutual
  /-- The moved statements write only the local slots `< n`. -/
  theorem slotsS_ren (n : Nat) : ∀ (s : Stm), g2S n s = true → slotsS n (renS s) = true
    | .expr _, _ => rfl
    | .assign i _, h => by
      simp only [g2S, Bool.and_eq_true] at h
      simp only [renS, slotsS]; exact h.1
    | .defl _ _, h => by simp only [g2S] at h; cases h
    | .setl _ _, h => by simp only [g2S] at h; cases h
    | .ifs _ b, h => by
      simp only [g2S, Bool.and_eq_true] at h
      simp only [renS, slotsS]; exact slotsSs_ren n b h.2
    | .ifelse _ b e, h => by
      simp only [g2S, Bool.and_eq_true] at h
      simp only [renS, slotsS, Bool.and_eq_true]; exact ⟨slotsSs_ren n b h.1.2, slotsSs_ren n e h.2⟩
    | .whil _ b, h => by
      simp only [g2S, Bool.and_eq_true] at h
      simp only [renS, slotsS]; exact slotsSs_ren n b h.2
    | .forever b, h => by
      simp only [g2S] at h
      simp only [renS, slotsS]; exact slotsSs_ren n b h
    | .for3 _ b p, h => by
      simp only [g2S, Bool.and_eq_true] at h
      simp only [renS, slotsS, Bool.and_eq_true]; exact ⟨slotsSs_ren n b h.1.2, slotsS_ren n p h.2⟩
    | .brk, _ => rfl
    | .cont, _ => rfl
    | .ret _, _ => rfl
    | .ret0, _ => rfl
  theorem slotsSs_ren (n : Nat) : ∀ (ss : Stms), g2Ss n ss = true → slotsSs n (renSs ss) = true
    | .nil, _ => rfl
    | .cons s ss, h => by
      simp only [g2Ss, Bool.and_eq_true] at h
      simp only [renSs, slotsSs, Bool.and_eq_true]; exact ⟨slotsS_ren n s h.1, slotsSs_ren n ss h.2⟩
end

theorem slotsSs_app (nl : Nat) : ∀ (a b : Stms), slotsSs nl a = true → slotsSs nl b = true →
    slotsSs nl (app a b) = true
  | .nil, _, _, hb => hb
  | .cons s ss, b, ha, hb => by
    simp only [slotsSs, Bool.and_eq_true] at ha
    simp only [app, slotsSs, Bool.and_eq_true]; exact ⟨ha.1, slotsSs_app nl ss b ha.2 hb⟩

theorem slotsSs_proFrom (n : Nat) : ∀ (c j : Nat), j + c ≤ n → slotsSs n (proFrom j c) = true
  | 0, _, _ => rfl
  | c + 1, j, h => by
    simp only [proFrom, slotsSs, slotsS, Bool.and_eq_true, decide_eq_true_eq]
    exact ⟨by omega, slotsSs_proFrom n c (j + 1) (by omega)⟩

theorem slotsSs_epiFrom (n : Nat) : ∀ (c j : Nat), slotsSs n (epiFrom j c) = true
  | 0, _ => rfl
  | c + 1, j => by
    simp only [epiFrom, slotsSs, slotsS, Bool.true_and]
    exact slotsSs_epiFrom n c (j + 1)

theorem fnDef_ok (n : Nat) (body : Stms) (hc : g2Ss n body = true) : FnOk (fnDef n body) where
  params := Nat.zero_le _
  slots := by
    show slotsSs n (app (proFrom 0 n) (app (renSs body) (epiFrom 0 n))) = true
    exact slotsSs_app n _ _ (slotsSs_proFrom n n 0 (by omega))
      (slotsSs_app n _ _ (slotsSs_ren n body hc) (slotsSs_epiFrom n n 0))

/-- The global placement is `ProgOk`. -/
theorem progG_ok (n : Nat) (body : Stms) (hc : g2Ss n body = true) : ProgOk (progG body) where
  fns := fun k fd h => by simp only [progG] at h; cases h
  main := slotsSs_g2 n body hc

/-- The IIFE placement is `ProgOk`. -/
theorem progI_ok (n L : Nat) (body : Stms) (hc : g2Ss n body = true) : ProgOk (progI n L body) where
  fns := fun k fd h => by
    by_cases hk : k = L
    · simp only [progI, if_pos hk, Option.some.injEq] at h
      subst h; exact fnDef_ok n body hc
    · simp only [progI, if_neg hk] at h; cases h
  main := rfl

end Tengo.Proofs.C11Place

import Tengo.Proofs.C01BridgeF3ConvExpr
import Tengo.Proofs.C01BridgeF3ConvStmt
import Tengo.Proofs.C01BridgeF3ConvCall
/-!
C01 bridge for fragment F3, converse direction: all forms at every fuel of the INTERPRETER (`all_conv3`), by strong
induction on that fuel (assignments, definitions, `if … else` and the call look two levels down).
-/
set_option linter.unusedVariables false
set_option linter.unusedSimpArgs false
namespace Tengo.Proofs.C01BridgeF3Conv
open Tengo.Model Tengo.Model.Spec
open Tengo.Model.F3 (Ex Exs Stm Stms FnDef Prog Locals ERes EsRes Res updL bindArgs)
open Tengo.Proofs.C01Bridge
open Tengo.Proofs.C01BridgeF3Comp
open Tengo.Proofs.C01BridgeF3Spec

variable {V : Type} {C : Cx V}

theorem allConv_zero (hy : Hyp C) : AllConv C 0 where
  e := evalConv_zero
  es := evalsConv_zero
  call := callConv_zero hy
  s := stmtConv_zero
  ss := stmtsConv_zero
  blk := blockConv_zero
  whil := whileConv_zero
  forever := foreverConv_zero
  for3 := for3Conv_zero
  defl := deflConv_zero
  body := bodyConv_zero

theorem allConv_succ (hy : Hyp C) (F : Nat) (ih : ∀ F', F' ≤ F → AllConv C F') : AllConv C (F + 1) := by
  have h0 := ih F (Nat.le_refl F)
  have ihE : ∀ F', F' ≤ F → ∀ e, EvalConv C F' e := fun F' h => (ih F' h).e
  have hW : ∀ c body, WhileConv C (F + 1) c body :=
    fun c body => whileConv_succ hy F ihE c body (h0.blk body) (h0.whil c body)
  have hFo : ∀ body, ForeverConv C (F + 1) body :=
    fun body => foreverConv_succ F body (h0.blk body) (h0.forever body)
  have h3 : ∀ c body post, For3Conv C (F + 1) c body post :=
    fun c body post => for3Conv_succ hy F ihE c body post (h0.blk body) (h0.s post) (h0.for3 c body post)
  refine ⟨evalConv_succ hy F h0.e h0.es h0.call, evalsConv_succ F h0.e h0.es,
    callConv_succ hy F (fun F' h => (ih F' h).body), fun st => ?_, fun ss => ?_,
    fun ss => blockConv_succ F (h0.ss ss), hW, hFo, h3, deflConv_succ hy F ihE, fun ss => ?_⟩
  · cases st with
    | expr e => exact stmtConv_expr F ihE e
    | assign i e => exact stmtConv_assign hy F ihE i e
    | defl i e =>
      intro ctx gs σ g l m lc B k inFn inl f hf he hh hw
      simp [wfS3] at hw
    | setl i e => exact stmtConv_setl F ihE i e
    | ifs c body => exact stmtConv_ifs hy F ihE c body (h0.blk body)
    | ifelse c body els =>
      exact stmtConv_ifelse hy F ihE c body els (fun F' h => (ih F' h).blk body) (fun F' h => (ih F' h).blk els)
    | whil c body => exact stmtConv_whil F c body (h0.whil c body)
    | forever body => exact stmtConv_forever F body (h0.forever body)
    | for3 c body post => exact stmtConv_for3 F c body post (h0.for3 c body post)
    | brk => exact stmtConv_brk F
    | cont => exact stmtConv_cont F
    | ret e => exact stmtConv_ret F ihE e
    | ret0 => exact stmtConv_ret0 hy F
  · cases ss with
    | nil => exact stmtsConv_nil F
    | cons st ss => exact stmtsConv_cons F st ss (h0.s st) (h0.ss ss)
  · cases ss with
    | nil => exact bodyConv_nil F
    | cons st ss => exact bodyConv_cons F st ss (h0.s st) h0.defl (h0.body ss)

theorem all_conv_le (hy : Hyp C) : ∀ F F', F' ≤ F → AllConv C F'
  | 0, F', h => by
    have : F' = 0 := by omega
    subst this
    exact allConv_zero hy
  | F + 1, F', h => by
    by_cases h' : F' ≤ F
    · exact all_conv_le hy F F' h'
    · have : F' = F + 1 := by omega
      subst this
      exact allConv_succ hy F (all_conv_le hy F)

/-- **All forms, at every fuel of the reference interpreter**: no answer (`Fz`), or the fragment's evaluator
terminates with every fuel at least the interpreter's, with the related result. -/
theorem all_conv3 (hy : Hyp C) (F : Nat) : AllConv C F := all_conv_le hy F F (Nat.le_refl F)

end Tengo.Proofs.C01BridgeF3Conv

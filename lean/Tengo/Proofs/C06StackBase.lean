import Tengo.Proofs.VMFrames
/-!
# C06: the operand stack of the whole-VM model is bounded — register level

For EVERY simple instruction (no verifier hypothesis): the stack array keeps its size and the stack
pointer either does not grow or ends up `≤ StackSize` (a push succeeded, which `setSlot` allows only
below `StackSize`).
-/
namespace Tengo.Model.VM
open Tengo.Model.Spec Tengo.Model.Opcodes

/-- What an instruction may do to the operand stack registers: the array keeps its size; the stack
pointer does not grow, or it ends within the array. -/
def RStep (r r' : Regs) : Prop :=
  r'.stack.size = r.stack.size ∧ (r'.sp ≤ r.sp ∨ r'.sp ≤ stackSize)

theorem RStep.refl (r : Regs) : RStep r r := ⟨rfl, Or.inl (Nat.le_refl _)⟩

theorem setSlot_size (r : Regs) (i : Nat) (v : Value) :
    Post (setSlot r i v) (fun r' => r'.stack.size = r.stack.size ∧ r'.sp = r.sp ∧ i < stackSize) := by
  unfold setSlot
  split
  · rename_i h
    exact Post_pure ⟨by simp, rfl, h⟩
  · exact Post_throw _

theorem push_size (r : Regs) (v : Value) :
    Post (push r v) (fun r' => r'.stack.size = r.stack.size ∧ r'.sp = r.sp + 1 ∧ r'.sp ≤ stackSize) := by
  unfold push
  refine Post_bind (setSlot_size r r.sp v) ?_
  rintro r1 ⟨h1, h2, h3⟩
  exact Post_pure ⟨h1, by simp [h2], by simp only [h2]; omega⟩

theorem pushAll_size : ∀ (vs : List Value) (r : Regs),
    Post (pushAll r vs) (fun r' => r'.stack.size = r.stack.size ∧ r'.sp = r.sp + vs.length ∧
      (r'.sp ≤ r.sp ∨ r'.sp ≤ stackSize))
  | [], r => by unfold pushAll; exact Post_pure ⟨rfl, by simp, Or.inl (Nat.le_refl _)⟩
  | v :: vs, r => by
    unfold pushAll
    refine Post_bind (push_size r v) ?_
    rintro r1 ⟨h1, h2, h3⟩
    refine Post_mono (pushAll_size vs r1) ?_
    rintro r2 ⟨g1, g2, g3⟩
    refine ⟨by rw [g1, h1], by simp [g2, h2]; omega, ?_⟩
    rcases g3 with g3 | g3
    · right; omega
    · right; exact g3

theorem copyArgs_size (bp numArgs : Nat) : ∀ (n : Nat) (r : Regs),
    Post (copyArgs r bp numArgs n) (fun r' => r'.stack.size = r.stack.size ∧ r'.sp = r.sp)
  | 0, r => by unfold copyArgs; exact Post_pure ⟨rfl, rfl⟩
  | n + 1, r => by
    unfold copyArgs
    refine Post_bind (setSlot_size r _ _) ?_
    rintro r1 ⟨h1, h2, _⟩
    refine Post_mono (copyArgs_size bp numArgs n r1) ?_
    rintro r2 ⟨g1, g2⟩
    exact ⟨by rw [g1, h1], by rw [g2, h2]⟩

theorem Post_bind_true' {α β} {x : VMM α} {f : α → VMM β} {P : β → Prop}
    (hf : ∀ a, Post (f a) P) : Post (x >>= f) P :=
  Post_bind (Post_true x) (fun a _ => hf a)

macro "st_walk" : tactic => `(tactic| repeat' (first
  | with_reducible apply PostX_rtE | with_reducible apply PostX_unsupE | with_reducible apply PostX_panicE
  | with_reducible apply PostX_fault
  | (with_reducible refine PostX_bind (PostX_em (push_size _ _)) ?_; intro _ _)
  | (with_reducible refine PostX_bind (PostX_em (setSlot_size _ _ _)) ?_; intro _ _)
  | (with_reducible refine PostX_bind (PostX_em (Post_bind_true' (fun _ => push_size _ _))) ?_; intro _ _)
  | (with_reducible refine PostX_bind (PostX_em (Post_bind_true' (fun _ => setSlot_size _ _ _))) ?_; intro _ _)
  | (with_reducible apply PostX_bind'; intro _)
  | split))

macro "st_leaf" : tactic => `(tactic| (apply PostX_pure; dsimp only [RStep] at *; omega))

section
variable (code : Code) (fr : Frame) (a0 a1 : Nat) (op : Nat) (r : Regs)

theorem exConstant_st : PostX (exConstant code fr a0 a1 op r) (fun o => RStep r o.regs) := by
  unfold exConstant; (try dsimp only); st_walk; all_goals st_leaf
theorem exNull_st : PostX (exNull code fr a0 a1 op r) (fun o => RStep r o.regs) := by
  unfold exNull; (try dsimp only); st_walk; all_goals st_leaf
theorem exTrue_st : PostX (exTrue code fr a0 a1 op r) (fun o => RStep r o.regs) := by
  unfold exTrue; (try dsimp only); st_walk; all_goals st_leaf
theorem exFalse_st : PostX (exFalse code fr a0 a1 op r) (fun o => RStep r o.regs) := by
  unfold exFalse; (try dsimp only); st_walk; all_goals st_leaf
theorem exPop_st : PostX (exPop code fr a0 a1 op r) (fun o => RStep r o.regs) := by
  unfold exPop; (try dsimp only); st_walk; all_goals st_leaf
theorem exBinaryOp_st : PostX (exBinaryOp code fr a0 a1 op r) (fun o => RStep r o.regs) := by
  unfold exBinaryOp; (try dsimp only); st_walk; all_goals st_leaf
theorem exEqual_st : PostX (exEqual code fr a0 a1 op r) (fun o => RStep r o.regs) := by
  unfold exEqual; (try dsimp only); st_walk; all_goals st_leaf
theorem exLNot_st : PostX (exLNot code fr a0 a1 op r) (fun o => RStep r o.regs) := by
  unfold exLNot; (try dsimp only); st_walk; all_goals st_leaf
theorem exBComplement_st : PostX (exBComplement code fr a0 a1 op r) (fun o => RStep r o.regs) := by
  unfold exBComplement; (try dsimp only); st_walk; all_goals st_leaf
theorem exMinus_st : PostX (exMinus code fr a0 a1 op r) (fun o => RStep r o.regs) := by
  unfold exMinus; (try dsimp only); st_walk; all_goals st_leaf
theorem exJumpFalsy_st : PostX (exJumpFalsy code fr a0 a1 op r) (fun o => RStep r o.regs) := by
  unfold exJumpFalsy; (try dsimp only); st_walk; all_goals st_leaf
theorem exAndJump_st : PostX (exAndJump code fr a0 a1 op r) (fun o => RStep r o.regs) := by
  unfold exAndJump; (try dsimp only); st_walk; all_goals st_leaf
theorem exOrJump_st : PostX (exOrJump code fr a0 a1 op r) (fun o => RStep r o.regs) := by
  unfold exOrJump; (try dsimp only); st_walk; all_goals st_leaf
theorem exJump_st : PostX (exJump code fr a0 a1 op r) (fun o => RStep r o.regs) := by
  unfold exJump; (try dsimp only); st_walk; all_goals st_leaf
theorem exSetGlobal_st : PostX (exSetGlobal code fr a0 a1 op r) (fun o => RStep r o.regs) := by
  unfold exSetGlobal; (try dsimp only); st_walk; all_goals st_leaf
theorem exGetGlobal_st : PostX (exGetGlobal code fr a0 a1 op r) (fun o => RStep r o.regs) := by
  unfold exGetGlobal; (try dsimp only); st_walk; all_goals st_leaf
theorem exSetSelGlobal_st : PostX (exSetSelGlobal code fr a0 a1 op r) (fun o => RStep r o.regs) := by
  unfold exSetSelGlobal; (try dsimp only); st_walk; all_goals st_leaf
theorem exArray_st : PostX (exArray code fr a0 a1 op r) (fun o => RStep r o.regs) := by
  unfold exArray; (try dsimp only); st_walk; all_goals st_leaf
theorem exMap_st : PostX (exMap code fr a0 a1 op r) (fun o => RStep r o.regs) := by
  unfold exMap; (try dsimp only); st_walk; all_goals st_leaf
theorem exError_st : PostX (exError code fr a0 a1 op r) (fun o => RStep r o.regs) := by
  unfold exError; (try dsimp only); st_walk; all_goals st_leaf
theorem exImmutable_st : PostX (exImmutable code fr a0 a1 op r) (fun o => RStep r o.regs) := by
  unfold exImmutable; (try dsimp only); st_walk; all_goals st_leaf
theorem exIndex_st : PostX (exIndex code fr a0 a1 op r) (fun o => RStep r o.regs) := by
  unfold exIndex; (try dsimp only); st_walk; all_goals st_leaf
theorem exSliceIndex_st : PostX (exSliceIndex code fr a0 a1 op r) (fun o => RStep r o.regs) := by
  unfold exSliceIndex; (try dsimp only); st_walk; all_goals st_leaf
theorem exDefineLocal_st : PostX (exDefineLocal code fr a0 a1 op r) (fun o => RStep r o.regs) := by
  unfold exDefineLocal; (try dsimp only); st_walk; all_goals st_leaf
theorem exSetLocal_st : PostX (exSetLocal code fr a0 a1 op r) (fun o => RStep r o.regs) := by
  unfold exSetLocal; (try dsimp only); st_walk; all_goals st_leaf
theorem exSetSelLocal_st : PostX (exSetSelLocal code fr a0 a1 op r) (fun o => RStep r o.regs) := by
  unfold exSetSelLocal; (try dsimp only); st_walk; all_goals st_leaf
theorem exGetLocal_st : PostX (exGetLocal code fr a0 a1 op r) (fun o => RStep r o.regs) := by
  unfold exGetLocal; (try dsimp only); st_walk; all_goals st_leaf
theorem exGetBuiltin_st : PostX (exGetBuiltin code fr a0 a1 op r) (fun o => RStep r o.regs) := by
  unfold exGetBuiltin; (try dsimp only); st_walk; all_goals st_leaf
theorem exClosure_st : PostX (exClosure code fr a0 a1 op r) (fun o => RStep r o.regs) := by
  unfold exClosure; (try dsimp only); st_walk; all_goals st_leaf
theorem exGetFreePtr_st : PostX (exGetFreePtr code fr a0 a1 op r) (fun o => RStep r o.regs) := by
  unfold exGetFreePtr; (try dsimp only); st_walk; all_goals st_leaf
theorem exGetFree_st : PostX (exGetFree code fr a0 a1 op r) (fun o => RStep r o.regs) := by
  unfold exGetFree; (try dsimp only); st_walk; all_goals st_leaf
theorem exSetFree_st : PostX (exSetFree code fr a0 a1 op r) (fun o => RStep r o.regs) := by
  unfold exSetFree; (try dsimp only); st_walk; all_goals st_leaf
theorem exGetLocalPtr_st : PostX (exGetLocalPtr code fr a0 a1 op r) (fun o => RStep r o.regs) := by
  unfold exGetLocalPtr; (try dsimp only); st_walk; all_goals st_leaf
theorem exSetSelFree_st : PostX (exSetSelFree code fr a0 a1 op r) (fun o => RStep r o.regs) := by
  unfold exSetSelFree; (try dsimp only); st_walk; all_goals st_leaf
theorem exIteratorInit_st : PostX (exIteratorInit code fr a0 a1 op r) (fun o => RStep r o.regs) := by
  unfold exIteratorInit; (try dsimp only); st_walk; all_goals st_leaf
theorem exIteratorNext_st : PostX (exIteratorNext code fr a0 a1 op r) (fun o => RStep r o.regs) := by
  unfold exIteratorNext; (try dsimp only); st_walk; all_goals st_leaf
theorem exIteratorKey_st : PostX (exIteratorKey code fr a0 a1 op r) (fun o => RStep r o.regs) := by
  unfold exIteratorKey; (try dsimp only); st_walk; all_goals st_leaf

theorem PostX_ite {β} {c : Prop} [Decidable c] {a b : XM β} {P : β → Prop}
    (ha : PostX a P) (hb : PostX b P) : PostX (if c then a else b) P := by
  split <;> assumption

/-- **Every simple instruction** keeps the stack array's size and either does not raise the stack
pointer or leaves it within the array. -/
theorem execSimple_st : PostX (execSimple code fr a0 a1 op r) (fun o => RStep r o.regs) := by
  unfold execSimple
  refine PostX_ite (exConstant_st code fr a0 a1 op r) ?_
  refine PostX_ite (exNull_st code fr a0 a1 op r) ?_
  refine PostX_ite (exTrue_st code fr a0 a1 op r) ?_
  refine PostX_ite (exFalse_st code fr a0 a1 op r) ?_
  refine PostX_ite (exPop_st code fr a0 a1 op r) ?_
  refine PostX_ite (exBinaryOp_st code fr a0 a1 op r) ?_
  refine PostX_ite (exEqual_st code fr a0 a1 op r) ?_
  refine PostX_ite (exLNot_st code fr a0 a1 op r) ?_
  refine PostX_ite (exBComplement_st code fr a0 a1 op r) ?_
  refine PostX_ite (exMinus_st code fr a0 a1 op r) ?_
  refine PostX_ite (exJumpFalsy_st code fr a0 a1 op r) ?_
  refine PostX_ite (exAndJump_st code fr a0 a1 op r) ?_
  refine PostX_ite (exOrJump_st code fr a0 a1 op r) ?_
  refine PostX_ite (exJump_st code fr a0 a1 op r) ?_
  refine PostX_ite (exSetGlobal_st code fr a0 a1 op r) ?_
  refine PostX_ite (exGetGlobal_st code fr a0 a1 op r) ?_
  refine PostX_ite (exSetSelGlobal_st code fr a0 a1 op r) ?_
  refine PostX_ite (exArray_st code fr a0 a1 op r) ?_
  refine PostX_ite (exMap_st code fr a0 a1 op r) ?_
  refine PostX_ite (exError_st code fr a0 a1 op r) ?_
  refine PostX_ite (exImmutable_st code fr a0 a1 op r) ?_
  refine PostX_ite (exIndex_st code fr a0 a1 op r) ?_
  refine PostX_ite (exSliceIndex_st code fr a0 a1 op r) ?_
  refine PostX_ite (exDefineLocal_st code fr a0 a1 op r) ?_
  refine PostX_ite (exSetLocal_st code fr a0 a1 op r) ?_
  refine PostX_ite (exSetSelLocal_st code fr a0 a1 op r) ?_
  refine PostX_ite (exGetLocal_st code fr a0 a1 op r) ?_
  refine PostX_ite (exGetBuiltin_st code fr a0 a1 op r) ?_
  refine PostX_ite (exClosure_st code fr a0 a1 op r) ?_
  refine PostX_ite (exGetFreePtr_st code fr a0 a1 op r) ?_
  refine PostX_ite (exGetFree_st code fr a0 a1 op r) ?_
  refine PostX_ite (exSetFree_st code fr a0 a1 op r) ?_
  refine PostX_ite (exGetLocalPtr_st code fr a0 a1 op r) ?_
  refine PostX_ite (exSetSelFree_st code fr a0 a1 op r) ?_
  refine PostX_ite (exIteratorInit_st code fr a0 a1 op r) ?_
  refine PostX_ite (exIteratorNext_st code fr a0 a1 op r) ?_
  refine PostX_ite (exIteratorKey_st code fr a0 a1 op r) ?_
  exact PostX_fault _

end
end Tengo.Model.VM

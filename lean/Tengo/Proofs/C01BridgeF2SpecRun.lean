import Tengo.Proofs.C01BridgeF2SpecStmt
import Tengo.Proofs.C01BridgeF2SpecCheck
import Tengo.Proofs.C01BridgeSpecRun
/-!
C01 bridge for fragment F2, reference-interpreter side (`runProgram`): the static check accepts the embedded
program (`checkProgram_fragment2`), the main program runs as the fragment's evaluator says (`all_sim2`), and the
read-out lists the final globals — together `runProgram_fragment2`.
-/
set_option linter.unusedVariables false
set_option linter.unusedSimpArgs false
namespace Tengo.Proofs.C01Bridge
open Tengo.Model Tengo.Model.Spec Tengo.Model.F0

/-- **The fragment's evaluator and the reference interpreter agree on F2.** For every embedded F2 program whose
`break` / `continue` are inside loops and whose post statements are simple statements: if the fragment's
evaluator `F2.exec vmSem` with fuel `f` finishes with globals `g'`, then `Spec.runProgram` — the static check
included, with every fuel `F ≥ 4 f + budSs2 ss`, from every initial heap — answers `ok` with exactly the globals
`names i ↦ g' i`; if the fragment's evaluator reports an error, `runProgram` reports the run-time outcome of an
error other than fuel exhaustion (never `ok`, never a compile error). -/
theorem runProgram_fragment2 (names : Nat → String) (ctab : Nat → F0.Const) (n : Nat) (ss : F2.Stms) (f F : Nat)
    (hinj : ∀ i j, i < n → j < n → names i = names j → i = j)
    (hwf : wfSs2 n 0 ss = true) (hsc : F2.scopedSs false ss = true) (hsp : simplePostSs ss = true)
    (hbud : budSs2 ss ≤ 4000) (hF : 4 * f + budSs2 ss ≤ F)
    (g : Nat → SV) (initHeap : St) :
    (∀ g', F2.exec vmSem (svConst ctab) f (.inr ss) g = .done g' →
      ∃ st, runProgram F (inputsV names n g) initHeap (toAstSs2 names ctab ss) = .ok (globalsV names n g') st) ∧
    (F2.exec vmSem (svConst ctab) f (.inr ss) g = .err →
      ∃ err, err ≠ Err.fuel ∧
        runProgram F (inputsV names n g) initHeap (toAstSs2 names ctab ss) = errOutcome err) := by
  have hc : checkProgram ((inputsV names n g).map Prod.fst) (toAstSs2 names ctab ss) = none := by
    have : (inputsV names n g).map Prod.fst = inputsOf names n := by
      simp [inputsV, inputsOf, List.map_map, Function.comp_def]
    rw [this]
    exact checkProgram_fragment2 names ctab n ss hwf hsc hbud
  rw [runProgram_eq F _ initHeap _ hc]
  have h0 : InInv names g initHeap.heap.size 0 { vars := [] } initHeap :=
    ⟨rfl, rfl, fun i hi => by omega⟩
  obtain ⟨fr, σ, hin, hinv⟩ := inputs_loop names g initHeap.heap.size {} n 0 _ _ h0
  simp only [Nat.zero_add] at hinv
  have hin' : EOk (forIn (inputsV names n g) ({ vars := [] } : Spec.Frame) inputStep) {} initHeap fr σ := by
    simpa [inputsV, List.range_eq_range'] using hin
  have hsim := (all_sim2 (names := names) (ctab := ctab) (n := n)
    (cells := fun i => initHeap.heap.size + i) f).2.1 ss F { env := [fr] } {} σ g 0 0 hF
    (hinv.env hinj) hinv.heap hwf hsp
  constructor
  · intro g' hg
    rw [hg] at hsim
    obtain ⟨σ', hok, hh'⟩ := hsim
    have hout := readOut_all names n (fun i => initHeap.heap.size + i) g' σ' hh' {} (List.range n)
      (fun i hi => by simpa using hi)
    have hvars : fr.vars.reverse = (List.range n).map (fun i => (names i, initHeap.heap.size + i)) := by
      rw [hinv.vars, List.reverse_reverse]
    refine ⟨σ', ?_⟩
    have : EOk (progOf F (inputsV names n g) (toAstSs2 names ctab ss)) {} initHeap (globalsV names n g') σ' := by
      unfold progOf
      refine EOk.bind hin' (EOk.bind hok ?_)
      simp only [List.getLast?_singleton, hvars]
      exact hout
    unfold EOk at this
    rw [this]; rfl
  · intro hg
    rw [hg] at hsim
    obtain ⟨err, hne, herr⟩ := hsim
    refine ⟨err, hne, ?_⟩
    have : EErr (progOf F (inputsV names n g) (toAstSs2 names ctab ss)) {} initHeap err := by
      unfold progOf
      exact EErr.bind_right hin' (EErr.bind_left herr)
    unfold EErr at this
    rw [this]
    cases err <;> first | rfl | exact absurd rfl hne

end Tengo.Proofs.C01Bridge

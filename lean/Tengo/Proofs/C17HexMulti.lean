import Tengo.Proofs.C17Hex
import Tengo.Proofs.C17Multi
/-!
Helper lemmas for C17: the format loop over a list of `HItem`s (the items of `FormatSpecMulti` plus canonical `%x` / `%X`
directives on strings and byte slices), every operand supplied. Re-uses the per-item lemmas of `Proofs/C17Multi`
(`loop_lit`, `loop_pct`, `loop_dir`, `step_combine`) unchanged and adds `loop_hex`.
-/
namespace Tengo.Proofs.C17HexMulti
open Tengo.Model.Format Tengo.Model.FormatSpec Tengo.Model.FormatSpecMulti Tengo.Model.FormatSpecHex
  Tengo.Proofs.FormatParse Tengo.Props.C17 Tengo.Proofs.C17Multi Tengo.Proofs.C17Hex

theorem printArg_hexArg (O : Oracle) (L : Nat) (d : GDir) (buf s : Bytes) (asBytes : Bool)
    (hv : d.verb = 120 ∨ d.verb = 88) (h : buf.length ≤ L) :
    printArg O L (flOf d) buf (hexArg asBytes s) d.verb = write L buf (renderHex d s) := by
  cases asBytes
  · exact (printArg_hex O L d buf s hv h).1
  · exact (printArg_hex O L d buf s hv h).2

/-- A canonical hex directive whose operand is there: one guarded write of `renderHex`, the operand counter advances. -/
theorem loop_hex (O : Oracle) (L : Nat) (args : List Arg) (ints : List (Option Int)) (d : GDir) (asBytes : Bool) (s : Bytes)
    (rest : Bytes) (st : LoopOut) (hok : HexOk d) (hb : st.buf.length ≤ L) (hget : args[st.argNum]? = some (hexArg asBytes s)) :
    loop O L args ints (showDir d ++ rest) st =
      (write L st.buf (renderHex d s) >>= fun buf =>
        loop O L args ints rest { buf := buf, argNum := st.argNum + 1, reordered := st.reordered }) := by
  have hverb := hok.2.2
  have h128 : d.verb < 128 := by omega
  have hvb := toUInt8_toNat d.verb h128
  have hpv := plainVerb_of _ d.verb hvb (by omega)
  rw [showDir_eq d rest h128, loop_percent, parse_show ints st.argNum d _ rest hvb hpv hok.1 hok.2.1]
  rw [renderDirective_get O L args (hexArg asBytes s) d _ _ st.buf hget (by omega) (by omega),
    printArg_hexArg O L d st.buf s asBytes hverb hb]
  cases hw : write L st.buf (renderHex d s) with
  | error e => rfl
  | ok b =>
    have hlt : st.argNum < args.length := by
      rcases Nat.lt_or_ge st.argNum args.length with h | h
      · exact h
      · rw [List.getElem?_eq_none h] at hget; cases hget
    have h37 : d.verb ≠ 37 := by omega
    have hnl : ¬ (st.argNum ≥ args.length) := by omega
    simp only [expected, Option.isNone_some, Bool.false_eq_true, if_false]
    rw [dirText_append d _ rest, List.drop_left]
    simp [nextArgNum, h37, hnl, bind, Except.bind]

/-- The final state of the loop when every operand has been consumed. -/
def done (st : LoopOut) (nargs : Nat) (buf : Bytes) : Except Err LoopOut :=
  .ok { buf := buf, argNum := nargs, reordered := st.reordered }

theorem drop_cons_get {α} (l : List α) (k : Nat) (a : α) (t : List α) (h : l.drop k = a :: t) :
    l[k]? = some a ∧ l.drop (k + 1) = t ∧ k < l.length := by
  have h1 : l[k]? = some a := by
    have := List.getElem?_drop (xs := l) (i := k) (j := 0)
    rw [h] at this
    simpa using this.symm
  have h2 : l.drop (k + 1) = t := by
    have : (l.drop k).drop 1 = t := by rw [h]; rfl
    rw [List.drop_drop] at this
    rw [← this]
  refine ⟨h1, h2, ?_⟩
  rcases Nat.lt_or_ge k l.length with hk | hk
  · exact hk
  · rw [List.getElem?_eq_none hk] at h1; cases h1

/-- **The loop invariant with hex items.** From any state whose buffer is within the limit and whose remaining arguments
are exactly the items' operands, the loop over the printed items is one guarded write of their rendering. -/
theorem loop_hitems (O : Oracle) (L : Nat) (args : List Arg) (ints : List (Option Int)) :
    ∀ (items : List HItem) (st : LoopOut), HItemsOk items → st.buf.length ≤ L → st.argNum ≤ args.length →
      args.drop st.argNum = operandsH items →
      loop O L args ints (showHItems items) st = (write L st.buf (renderAllH items) >>= done st args.length) := by
  intro items
  induction items with
  | nil =>
    intro st _ hb hk hd
    simp only [showHItems, loop_nil, renderAllH]
    rw [C17Multi.write_nil L st.buf hb]
    show _ = done st args.length st.buf
    have hlen := congrArg List.length hd
    simp only [operandsH, List.length_drop, List.length_nil] at hlen
    have : st.argNum = args.length := by omega
    simp only [done, ← this]
  | cons it rest ih =>
    intro st hok hb hk hd
    have hokr : HItemsOk rest := fun x hx => hok x (List.mem_cons_of_mem _ hx)
    have hit : HItemOk it := hok it (List.mem_cons_self)
    cases it with
    | base it =>
      cases it with
      | lit s =>
        have hdr : args.drop st.argNum = operandsH rest := by simpa [operandsH, operandH] using hd
        simp only [showHItems, showHItem, showItem, renderAllH, renderHItem, renderItem]
        rw [loop_lit O L args ints s (showHItems rest) st hit hb]
        exact step_combine L st.buf s _ _ _ (fun b hw => by
          obtain ⟨_, hbl⟩ := write_ok L st.buf s b hw
          exact ih { st with buf := b } hokr hbl hk hdr)
      | pct =>
        have hdr : args.drop st.argNum = operandsH rest := by simpa [operandsH, operandH] using hd
        simp only [showHItems, showHItem, showItem, renderAllH, renderHItem, renderItem]
        show loop O L args ints (37 :: 37 :: showHItems rest) st = _
        rw [loop_pct O L args ints (showHItems rest) st]
        exact step_combine L st.buf [37] _ _ _ (fun b hw => by
          obtain ⟨_, hbl⟩ := write_ok L st.buf [37] b hw
          exact ih { st with buf := b } hokr hbl hk hdr)
      | dir d a =>
        have hd' : args.drop st.argNum = a.toArg :: operandsH rest := by simpa [operandsH, operandH] using hd
        obtain ⟨hget, hdr, hlt⟩ := drop_cons_get args st.argNum _ _ hd'
        simp only [showHItems, showHItem, showItem, renderAllH, renderHItem, renderItem]
        rw [loop_dir O L args ints d a (showHItems rest) st hit hb hget]
        exact step_combine L st.buf (renderDir d a) _ _ _ (fun b hw => by
          obtain ⟨_, hbl⟩ := write_ok L st.buf _ b hw
          exact ih { buf := b, argNum := st.argNum + 1, reordered := st.reordered } hokr hbl hlt hdr)
    | hex d asBytes s =>
      have hd' : args.drop st.argNum = hexArg asBytes s :: operandsH rest := by simpa [operandsH, operandH] using hd
      obtain ⟨hget, hdr, hlt⟩ := drop_cons_get args st.argNum _ _ hd'
      simp only [showHItems, showHItem, renderAllH, renderHItem]
      rw [loop_hex O L args ints d asBytes s (showHItems rest) st hit hb hget]
      exact step_combine L st.buf (renderHex d s) _ _ _ (fun b hw => by
        obtain ⟨_, hbl⟩ := write_ok L st.buf _ b hw
        exact ih { buf := b, argNum := st.argNum + 1, reordered := st.reordered } hokr hbl hlt hdr)

theorem operandsH_noFloat : ∀ (items : List HItem), ∀ a ∈ operandsH items, NoFloat a := by
  intro items
  induction items with
  | nil => intro a h; cases h
  | cons it rest ih =>
    intro a h
    simp only [operandsH, List.mem_append] at h
    rcases h with h | h
    · cases it with
      | base it =>
        cases it with
        | lit s => simp [operandH] at h
        | pct => simp [operandH] at h
        | dir d x =>
          simp only [operandH, List.mem_cons, List.not_mem_nil, or_false] at h
          subst h; exact toArg_noFloat x
      | hex d b s =>
        simp only [operandH, List.mem_cons, List.not_mem_nil, or_false] at h
        subst h
        intro bits hc
        cases b <;> simp [hexArg] at hc
    · exact ih a h

/-- `Format` on the printed items and exactly their operands: the loop's single guarded write; no surplus. -/
theorem format_hitems (O : Oracle) (L : Nat) (items : List HItem) (hok : HItemsOk items) :
    format O L (showHItems items) (operandsH items) = write L [] (renderAllH items) := by
  obtain ⟨ints, hints⟩ := resolveInts_noFloat O (operandsH items) (operandsH_noFloat items)
  unfold format
  rw [hints]
  simp only []
  rw [loop_hitems O L (operandsH items) ints items { buf := [], argNum := 0, reordered := false } hok (Nat.zero_le _)
    (Nat.zero_le _) (by simp)]
  cases hw : write L [] (renderAllH items) with
  | error e => rfl
  | ok b => simp [bind, Except.bind, done]

end Tengo.Proofs.C17HexMulti

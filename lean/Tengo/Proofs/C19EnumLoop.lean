import Tengo.Proofs.C19EnumStmt
/-!
C19, enum module, layer 3: the `for k, v in x { … }` loop of the reference interpreter over an array
(`loopForIn` with the live-array reads), one iteration (`loop_step`) and the induction over the remaining
elements (`loop_run`), for bodies that keep an invariant of the heap.
-/
set_option linter.unusedVariables false
set_option linter.unusedSimpArgs false
namespace Tengo.Proofs.C19Enum
open Tengo.Model Tengo.Model.Spec

theorem declare_fn {ctx : Ctx} {f : Frame} {E : Env} (n : String) (v : Value) (tag : Nat) (gs : GSt) (σ : St)
    (hd : (ctx.callDepth == 0) = false) (he : ctx.env = f :: E) :
    declare ctx n v tag gs σ =
      .ok (({ f with vars := (n, σ.heap.size) :: f.vars.filter (fun p => p.1 != n) } :: E, gs),
        pushSt σ (.cell v false)) := by
  unfold declare
  simp only [hd, he, Bool.false_eq_true, if_false]
  rw [em_bind_ok (liftM_ok (alloc_run _ _))]
  rfl

/-- Context of the loop body in iteration that starts in heap `σ`. -/
def iterCtx (ctx : Ctx) (E : Env) (σ : St) : Ctx :=
  { ctx with env := { vars := [("v", σ.heap.size + 1), ("k", σ.heap.size)] } :: E }

theorem loop_step {F : Nat} {ctx : Ctx} {E : Env} {rest : List (Value × Value)} {r st : Nat} {es : List Value}
    {i : Nat} {kv vv : Value} {body : List Stmt} (gs : GSt) {σ : St}
    (harr : ArrAt σ r st es) (hlen : es.length = rest.length + 1 + i)
    (he : ctx.env = { vars := [] } :: E) (hd : (ctx.callDepth == 0) = false) :
    loopForIn (F + 1) ctx "k" "v" ((kv, vv) :: rest) (some (r, st)) i body gs σ =
      (do match ← execBlock F (iterCtx ctx E σ) body 1 with
          | .brk => pure Flow.normal
          | .ret x => pure (Flow.ret x)
          | _ => loopForIn F ctx "k" "v" rest (some (r, st)) (i + 1) body : EM Flow) gs
        (st2 σ kv (es.getD i vv)) := by
  simp only [loopForIn]
  obtain ⟨off, len, h1, _⟩ := harr.hdr
  rw [em_bind_ok (liftM_ok (arrElems_run harr)), em_bind_ok (liftM_ok (getObj_run h1))]
  have hk : ("k" != "_") = true := by decide
  have hv : ("v" != "_") = true := by decide
  have hne : (es.length != rest.length + 1 + i) = false := by simp [hlen]
  simp only [pure_bind, hne, beq_self_eq_true, Bool.not_true, Bool.or_self, Bool.false_eq_true, if_false, hk, hv,
    if_true]
  rw [em_bind_ok (declare_fn (ctx := { env := ctx.env, callDepth := ctx.callDepth, path := 4 :: ctx.path })
    "k" kv 1 gs σ hd he)]
  rw [em_bind_ok (declare_fn (ctx := { env := _, callDepth := ctx.callDepth, path := 4 :: ctx.path })
    "v" (es.getD i vv) 2 gs _ hd rfl)]
  have hkv : ("k" != "v") = true := by decide
  simp only [List.filter_nil, List.filter_cons, pushSt_size, hkv, if_true]
  rfl

/-- `for k, v in x body` where `x` is an array. -/
theorem forin_run {F : Nat} {ctx : Ctx} {body : List Stmt} {r st : Nat} {es : List Value} (gs : GSt) {σ : St}
    (hx : Var σ ctx.env "x" (.arr r)) (harr : ArrAt σ r st es) :
    execStmt (F + 2) ctx (forKV body) gs σ =
      (do let fl ← loopForIn (F + 1) (pushCtx ctx) "k" "v" (es.zipIdx.map (fun (x, i) => (Value.int i, x)))
            (some (r, st)) 0 body
          pure (fl, ctx.env) : EM (Flow × Env)) gs σ := by
  unfold forKV
  simp only [execStmt]
  obtain ⟨off, len, h1, _⟩ := harr.hdr
  rw [em_bind_ok (ev_ident (ctx := { env := { vars := [] } :: ctx.env, callDepth := ctx.callDepth, path := ctx.path })
    (var_push hx 0) F gs)]
  simp only [bind_assoc]
  rw [em_bind_ok (liftM_ok (arrElems_run harr))]
  simp only [pure_bind]
  rw [em_bind_ok (liftM_ok (getObj_run h1))]
  rfl

def flowOf : Option Value → Flow
  | none => .normal
  | some v => .ret v

/-- First `some` answer of the body over the elements `l` at indices `i, i+1, …`. -/
def firstRes (res : Nat → Value → Option Value) : List Value → Nat → Option Value
  | [], _ => none
  | x :: l, i => match res i x with
    | some v => some v
    | none => firstRes res l (i + 1)

def itemsOf (l : List Value) (i : Nat) : List (Value × Value) :=
  (l.zipIdx i).map (fun (x, i) => (Value.int i, x))

theorem drop_cons_facts {es l : List Value} {i : Nat} {x : Value} (h : es.drop i = x :: l) :
    es[i]? = some x ∧ es.drop (i + 1) = l ∧ es.length = l.length + 1 + i := by
  refine ⟨?_, ?_, ?_⟩
  · have : (es.drop i)[0]? = some x := by rw [h]; rfl
    simpa using this
  · have : es.drop (i + 1) = (es.drop i).drop 1 := by simp [List.drop_drop]
    rw [this, h]; rfl
  · have : (es.drop i).length = l.length + 1 := by rw [h]; rfl
    rw [List.length_drop] at this
    omega

/-- The loop over the remaining elements: bodies that answer `flowOf (res i x)` and keep `Inv`. -/
theorem loop_run {Fb : Nat} {ctx : Ctx} {E : Env} {r st : Nat} {es : List Value} {body : List Stmt} (gs : GSt)
    (Inv : Nat → St → Prop) (res : Nat → Value → Option Value)
    (hArr : ∀ i σ, Inv i σ → ArrAt σ r st es)
    (he : ctx.env = { vars := [] } :: E) (hd : (ctx.callDepth == 0) = false)
    (hbody : ∀ F, Fb ≤ F → ∀ i x σ, es[i]? = some x → Inv i σ →
      ∃ σ', execBlock F (iterCtx ctx E σ) body 1 gs (st2 σ (.int i) x) = .ok ((flowOf (res i x), gs), σ') ∧
        Inv (i + 1) σ') :
    ∀ (l : List Value) (i : Nat) (σ : St), i ≤ es.length → es.drop i = l → Inv i σ →
      ∃ σ' j, loopForIn (Fb + l.length + 1) ctx "k" "v" (itemsOf l i) (some (r, st)) i body gs σ =
          .ok ((flowOf (firstRes res l i), gs), σ') ∧ Inv j σ' ∧ (firstRes res l i = none → j = es.length) := by
  intro l
  induction l with
  | nil =>
    intro i σ hi hl hI
    refine ⟨σ, i, ?_, hI, fun _ => ?_⟩
    · simp only [itemsOf, List.zipIdx_nil, List.map_nil, loopForIn]; rfl
    · have : (es.drop i).length = 0 := by rw [hl]; rfl
      rw [List.length_drop] at this
      omega
  | cons x l ih =>
    intro i σ hi hl hI
    obtain ⟨hget, hdrop, hlen⟩ := drop_cons_facts hl
    have hstep := loop_step (F := Fb + l.length + 1) (ctx := ctx) (E := E) (rest := itemsOf l (i + 1)) (i := i)
      (kv := .int i) (vv := x) (body := body) gs (hArr i σ hI) (by simp [itemsOf]; omega) he hd
    have hgetD : es.getD i x = x := by simp [List.getD_eq_getElem?_getD, hget]
    rw [hgetD] at hstep
    obtain ⟨σ1, hb, hI1⟩ := hbody (Fb + l.length + 1) (by omega) i x σ hget hI
    have hitems : itemsOf (x :: l) i = (Value.int i, x) :: itemsOf l (i + 1) := by
      simp [itemsOf, List.zipIdx_cons]
    rw [hitems, show Fb + (x :: l).length + 1 = (Fb + l.length + 1) + 1 from by simp; omega, hstep, em_bind_ok hb]
    cases hr : res i x with
    | some v =>
      refine ⟨σ1, i + 1, ?_, hI1, ?_⟩
      · simp only [firstRes, hr, flowOf]; rfl
      · simp [firstRes, hr]
    | none =>
      obtain ⟨σ2, j, h2, hI2, hj⟩ := ih (i + 1) σ1 (by omega) hdrop hI1
      refine ⟨σ2, j, ?_, hI2, ?_⟩
      · simp only [firstRes, hr, flowOf]; exact h2
      · simpa [firstRes, hr] using hj

/-- The whole statement `for k, v in x body` over the array `x`. -/
theorem forin_loop_run {Fb : Nat} {ctx : Ctx} {r st : Nat} {es : List Value} {body : List Stmt} (gs : GSt)
    (Inv : Nat → St → Prop) (res : Nat → Value → Option Value)
    (hArr : ∀ i σ, Inv i σ → ArrAt σ r st es)
    (hX : ∀ i σ, Inv i σ → Var σ ctx.env "x" (.arr r))
    (hd : (ctx.callDepth == 0) = false)
    (hbody : ∀ F, Fb ≤ F → ∀ i x σ, es[i]? = some x → Inv i σ →
      ∃ σ', execBlock F (iterCtx (pushCtx ctx) ctx.env σ) body 1 gs (st2 σ (.int i) x) =
          .ok ((flowOf (res i x), gs), σ') ∧ Inv (i + 1) σ')
    (σ : St) (hI : Inv 0 σ) :
    ∃ σ' j, execStmt (Fb + es.length + 2) ctx (forKV body) gs σ =
        .ok (((flowOf (firstRes res es 0), ctx.env), gs), σ') ∧ Inv j σ' ∧
        (firstRes res es 0 = none → j = es.length) := by
  obtain ⟨σ', j, h, hI', hj⟩ := loop_run (ctx := pushCtx ctx) (E := ctx.env) gs Inv res hArr rfl hd hbody es 0 σ
    (Nat.zero_le _) rfl hI
  refine ⟨σ', j, ?_, hI', hj⟩
  rw [forin_run gs (hX 0 σ hI) (hArr 0 σ hI)]
  have : (es.zipIdx.map (fun (x, i) => (Value.int i, x))) = itemsOf es 0 := rfl
  rw [this, em_bind_ok h]
  rfl

end Tengo.Proofs.C19Enum

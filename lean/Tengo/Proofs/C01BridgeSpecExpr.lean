import Tengo.Proofs.C01BridgeSpecBase
import Tengo.Proofs.C01BridgeExpr
/-!
C01 bridge, reference-interpreter side, layer 1 (expressions): on the embedded expression, the reference
interpreter `Spec.evalExpr` returns exactly the value of the fragment's evaluator `F0.eval vmSem`, leaves the
heap and the declaration-site table alone, and fails (with an error other than fuel exhaustion) exactly where
the fragment's evaluator has no value (`evalOK`).
-/
set_option linter.unusedVariables false
set_option linter.unusedSimpArgs false
namespace Tengo.Proofs.C01Bridge
open Tengo.Model Tengo.Model.Spec Tengo.Model.F0

/-! ### the interpreter's expression evaluator unfolded on the embedded forms -/

theorem tokName_eq {t : Nat} (h : validTok t = true) : tokNameOf t = VM.tokOfNum t := by
  rcases validTok_cases h with h | h | h | h | h | h | h | h | h | h | h | h | h | h | h <;> subst h <;> decide

theorem ev_tok (F : Nat) (ctx : Ctx) (t : Nat) (ht : validTok t = true) (l r : Expr) :
    evalExpr (F + 1) ctx (.bin (tokNameOf t) l r) = (do
      let a ← evalExpr F ctx l
      let b ← evalExpr F ctx r
      Spec.liftM (binaryOp (VM.tokOfNum t) a b)) := by
  rw [evalExpr.eq_10, ← tokName_eq ht]
  rcases validTok_cases ht with h | h | h | h | h | h | h | h | h | h | h | h | h | h | h <;> subst h <;> rfl

theorem ev_eq (F : Nat) (ctx : Ctx) (l r : Expr) :
    evalExpr (F + 1) ctx (.bin "Equal" l r) = (do
      let a ← evalExpr F ctx l
      let b ← evalExpr F ctx r
      let x ← Spec.liftM (equalsV 64 a b)
      pure (.bool x)) := by
  rw [evalExpr.eq_10]; rfl

theorem ev_ne (F : Nat) (ctx : Ctx) (l r : Expr) :
    evalExpr (F + 1) ctx (.bin "NotEqual" l r) = (do
      let a ← evalExpr F ctx l
      let b ← evalExpr F ctx r
      let x ← Spec.liftM (equalsV 64 a b)
      pure (.bool !x)) := by
  rw [evalExpr.eq_10]; rfl

theorem ev_land (F : Nat) (ctx : Ctx) (l r : Expr) :
    evalExpr (F + 1) ctx (.bin "LAnd" l r) = (do
      let a ← evalExpr F ctx l
      let b ← Spec.liftM (isFalsy a)
      if b = true then pure a else evalExpr F ctx r) := by
  rw [evalExpr.eq_10]; rfl

theorem ev_lor (F : Nat) (ctx : Ctx) (l r : Expr) :
    evalExpr (F + 1) ctx (.bin "LOr" l r) = (do
      let a ← evalExpr F ctx l
      let b ← Spec.liftM (isFalsy a)
      if b = true then evalExpr F ctx r else pure a) := by
  rw [evalExpr.eq_10]; rfl

theorem ev_not (F : Nat) (ctx : Ctx) (x : Expr) :
    evalExpr (F + 1) ctx (.un "Not" x) = (do
      let a ← evalExpr F ctx x
      let b ← Spec.liftM (isFalsy a)
      pure (.bool b)) := by
  rw [evalExpr.eq_11]; rfl

theorem ev_sub (F : Nat) (ctx : Ctx) (x : Expr) :
    evalExpr (F + 1) ctx (.un "Sub" x) = (do
      let a ← evalExpr F ctx x
      match a with
        | .int n => pure (.int (wrap64 (-n)))
        | .float f => pure (.float (-f))
        | _ => eRt s!"invalid operation: -{typeName a}") := by
  rw [evalExpr.eq_11]; rfl

theorem ev_xor (F : Nat) (ctx : Ctx) (x : Expr) :
    evalExpr (F + 1) ctx (.un "Xor" x) = (do
      let a ← evalExpr F ctx x
      match a with
        | .int n => pure (.int (-n - 1))
        | _ => eRt s!"invalid operation: ^{typeName a}") := by
  rw [evalExpr.eq_11]; rfl

theorem ev_plus (F : Nat) (ctx : Ctx) (x : Expr) :
    evalExpr (F + 1) ctx (.un "Add" x) = (evalExpr F ctx x >>= fun a => pure a) := by
  rw [evalExpr.eq_11]; rfl


/-! ### expressions: the interpreter computes what the fragment's evaluator computes -/

section
variable (names : Nat → String) (ctab : Nat → F0.Const) (n : Nat) (cells : Nat → Nat)

/-- On an embedded expression, with every slot a heap cell holding `g`, the reference interpreter returns
exactly the value of the fragment's evaluator `F0.eval vmSem` and leaves the heap alone; where the
fragment's evaluator has no value, the interpreter fails with an error that is not fuel exhaustion. -/
def EvalOK (e : Ex) : Prop :=
  ∀ (F : Nat) (ctx : Ctx) (gs : GSt) (σ : St) (g : Nat → SV) (k : Nat),
    budE e ≤ F → EnvOK names n cells ctx.env → HeapOK n cells g σ → wfE n k e = true →
    (∀ v, eval vmSem (svConst ctab) g e = some v →
      EOk (evalExpr F ctx (toAstE names ctab e)) gs σ v.1 σ) ∧
    (eval vmSem (svConst ctab) g e = none →
      ∃ err, err ≠ Err.fuel ∧ EErr (evalExpr F ctx (toAstE names ctab e)) gs σ err)

variable {names ctab n cells}

/-- Two operands, then a continuation on their values. -/
theorem two_sim {l r : Ex} (hl : EvalOK names ctab n cells l) (hr : EvalOK names ctab n cells r)
    (K : Value → Value → EM Value) (op : SV → SV → Option SV)
    (hK_ok : ∀ (a b v : SV) (gs : GSt) (σ : St), op a b = some v → EOk (K a.1 b.1) gs σ v.1 σ)
    (hK_err : ∀ (a b : SV) (gs : GSt) (σ : St), op a b = none →
      ∃ err, err ≠ Err.fuel ∧ EErr (K a.1 b.1) gs σ err)
    (F : Nat) (ctx : Ctx) (gs : GSt) (σ : St) (g : Nat → SV) (kl kr : Nat)
    (hFl : budE l ≤ F) (hFr : budE r ≤ F) (he : EnvOK names n cells ctx.env) (hh : HeapOK n cells g σ)
    (hwl : wfE n kl l = true) (hwr : wfE n kr r = true)
    (res : Option SV) (prog : EM Value)
    (hprog : prog = (do
      let a ← evalExpr F ctx (toAstE names ctab l)
      let b ← evalExpr F ctx (toAstE names ctab r)
      K a b))
    (h1 : eval vmSem (svConst ctab) g l = none → res = none)
    (h2 : ∀ a, eval vmSem (svConst ctab) g l = some a → eval vmSem (svConst ctab) g r = none → res = none)
    (h3 : ∀ a b, eval vmSem (svConst ctab) g l = some a → eval vmSem (svConst ctab) g r = some b → res = op a b) :
    (∀ v, res = some v → EOk prog gs σ v.1 σ) ∧
    (res = none → ∃ err, err ≠ Err.fuel ∧ EErr prog gs σ err) := by
  subst hprog
  obtain ⟨hl1, hl2⟩ := hl F ctx gs σ g kl hFl he hh hwl
  obtain ⟨hr1, hr2⟩ := hr F ctx gs σ g kr hFr he hh hwr
  cases hel : eval vmSem (svConst ctab) g l with
  | none =>
    obtain ⟨err, hne, herr⟩ := hl2 hel
    refine ⟨fun v hv => (by rw [h1 hel] at hv; cases hv), fun _ => ⟨err, hne, EErr.bind_left herr⟩⟩
  | some a =>
    cases her : eval vmSem (svConst ctab) g r with
    | none =>
      obtain ⟨err, hne, herr⟩ := hr2 her
      refine ⟨fun v hv => (by rw [h2 a hel her] at hv; cases hv),
        fun _ => ⟨err, hne, EErr.bind_right (hl1 a hel) (EErr.bind_left herr)⟩⟩
    | some b =>
      constructor
      · intro v hv
        have hv' : op a b = some v := by rw [← h3 a b hel her]; exact hv
        exact EOk.bind (hl1 a hel) (EOk.bind (hr1 b her) (hK_ok a b v gs σ hv'))
      · intro hv
        have hv' : op a b = none := by rw [← h3 a b hel her]; exact hv
        obtain ⟨err, hne, herr⟩ := hK_err a b gs σ hv'
        exact ⟨err, hne, EErr.bind_right (hl1 a hel) (EErr.bind_right (hr1 b her) herr)⟩

theorem eerr_eRt {α : Type} (msg : String) (gs : GSt) (σ : St) : EErr (eRt msg : EM α) gs σ (.runtime msg) :=
  EErr.lift (m := rtErr msg) rfl

theorem evalOK (e : Ex) : EvalOK names ctab n cells e := by
  induction e with
  | lit j =>
    intro F ctx gs σ g k hF he hh hw
    cases F with
    | zero => simp [budE] at hF
    | succ F =>
      refine ⟨?_, fun h => by simp [eval] at h⟩
      intro v hv
      simp only [eval, Option.some.injEq] at hv
      subst hv
      simp only [toAstE, svConst]
      cases hc : ctab j <;> simp only [litExpr, constValue] <;>
        first
          | (rw [evalExpr.eq_3]; exact EOk.pure _ gs σ)
          | (rw [evalExpr.eq_4]; exact EOk.pure _ gs σ)
          | (rw [evalExpr.eq_5]; exact EOk.pure _ gs σ)
          | (rw [evalExpr.eq_6]; exact EOk.pure _ gs σ)
  | tru =>
    intro F ctx gs σ g k hF he hh hw
    cases F with
    | zero => simp [budE] at hF
    | succ F =>
      refine ⟨?_, fun h => by simp [eval] at h⟩
      intro v hv
      simp only [eval, Option.some.injEq] at hv
      subst hv
      simp only [toAstE, evalExpr.eq_7]
      exact EOk.pure _ gs σ
  | fls =>
    intro F ctx gs σ g k hF he hh hw
    cases F with
    | zero => simp [budE] at hF
    | succ F =>
      refine ⟨?_, fun h => by simp [eval] at h⟩
      intro v hv
      simp only [eval, Option.some.injEq] at hv
      subst hv
      simp only [toAstE, evalExpr.eq_7]
      exact EOk.pure _ gs σ
  | undef =>
    intro F ctx gs σ g k hF he hh hw
    cases F with
    | zero => simp [budE] at hF
    | succ F =>
      refine ⟨?_, fun h => by simp [eval] at h⟩
      intro v hv
      simp only [eval, Option.some.injEq] at hv
      subst hv
      simp only [toAstE, evalExpr.eq_8]
      exact EOk.pure _ gs σ
  | glob i =>
    intro F ctx gs σ g k hF he hh hw
    cases F with
    | zero => simp [budE] at hF
    | succ F =>
      simp only [wfE, decide_eq_true_eq] at hw
      refine ⟨?_, fun h => by simp [eval] at h⟩
      intro v hv
      simp only [eval, Option.some.injEq] at hv
      subst hv
      simp only [toAstE, evalExpr.eq_2]
      exact readVar_ok he hh hw gs
  | bin tok l r ihl ihr =>
    intro F ctx gs σ g k hF he hh hw
    cases F with
    | zero => simp [budE] at hF
    | succ F =>
      simp only [wfE, Bool.and_eq_true] at hw
      obtain ⟨⟨ht, hwl⟩, hwr⟩ := hw
      simp only [budE] at hF
      simp only [toAstE, ev_tok F ctx tok ht]
      exact two_sim ihl ihr (fun a b => Spec.liftM (binaryOp (VM.tokOfNum tok) a b)) (vmSem.binop tok)
        (fun a b v gs σ hv => EOk.lift ((binaryOp_sem tok a b σ).1 v hv))
        (fun a b gs σ hv => by
          obtain ⟨e, hne, he⟩ := (binaryOp_sem tok a b σ).2 hv
          exact ⟨e, hne, EErr.lift he⟩)
        F ctx gs σ g _ _ (by omega) (by omega) he hh hwl hwr _ _ rfl
        (fun h => by simp [eval, h]) (fun a h1 h2 => by simp [eval, h1, h2])
        (fun a b h1 h2 => by simp [eval, h1, h2])
  | eq l r ihl ihr =>
    intro F ctx gs σ g k hF he hh hw
    cases F with
    | zero => simp [budE] at hF
    | succ F =>
      simp only [wfE, Bool.and_eq_true] at hw
      obtain ⟨hwl, hwr⟩ := hw
      simp only [budE] at hF
      simp only [toAstE, ev_eq]
      exact two_sim ihl ihr (fun a b => do let x ← Spec.liftM (equalsV 64 a b); pure (.bool x))
        (fun a b => some (vmSem.ofBool (vmSem.eqv a b)))
        (fun a b v gs σ hv => by
          simp only [Option.some.injEq] at hv
          subst hv
          exact EOk.bind (EOk.lift (equalsV_sem a b σ)) (EOk.pure _ gs σ))
        (fun a b gs σ hv => by cases hv)
        F ctx gs σ g _ _ (by omega) (by omega) he hh hwl hwr _ _ rfl
        (fun h => by simp [eval, h]) (fun a h1 h2 => by simp [eval, h1, h2])
        (fun a b h1 h2 => by simp [eval, h1, h2])
  | ne l r ihl ihr =>
    intro F ctx gs σ g k hF he hh hw
    cases F with
    | zero => simp [budE] at hF
    | succ F =>
      simp only [wfE, Bool.and_eq_true] at hw
      obtain ⟨hwl, hwr⟩ := hw
      simp only [budE] at hF
      simp only [toAstE, ev_ne]
      exact two_sim ihl ihr (fun a b => do let x ← Spec.liftM (equalsV 64 a b); pure (.bool !x))
        (fun a b => some (vmSem.ofBool (!vmSem.eqv a b)))
        (fun a b v gs σ hv => by
          simp only [Option.some.injEq] at hv
          subst hv
          exact EOk.bind (EOk.lift (equalsV_sem a b σ)) (EOk.pure _ gs σ))
        (fun a b gs σ hv => by cases hv)
        F ctx gs σ g _ _ (by omega) (by omega) he hh hwl hwr _ _ rfl
        (fun h => by simp [eval, h]) (fun a h1 h2 => by simp [eval, h1, h2])
        (fun a b h1 h2 => by simp [eval, h1, h2])
  | neg e ih =>
    intro F ctx gs σ g k hF he hh hw
    cases F with
    | zero => simp [budE] at hF
    | succ F =>
      simp only [wfE] at hw
      simp only [budE] at hF
      obtain ⟨h1, h2⟩ := ih F ctx gs σ g k (by omega) he hh hw
      simp only [toAstE, ev_sub, eval]
      cases hev : eval vmSem (svConst ctab) g e with
      | none =>
        obtain ⟨err, hne, herr⟩ := h2 hev
        exact ⟨fun v hv => (by cases hv), fun _ => ⟨err, hne, EErr.bind_left herr⟩⟩
      | some a =>
        have ha := h1 a hev
        obtain ⟨av, has⟩ := a
        cases av <;> simp only [vmSem] <;> first
          | exact ⟨fun v hv => (by cases hv), fun _ => ⟨_, fun hh => Err.noConfusion hh,
              EErr.bind_right ha (eerr_eRt _ gs σ)⟩⟩
          | (refine ⟨fun v hv => ?_, fun hv => by cases hv⟩
             simp only [Option.some.injEq] at hv
             subst hv
             exact EOk.bind ha (EOk.pure _ gs σ))
  | bnot e ih =>
    intro F ctx gs σ g k hF he hh hw
    cases F with
    | zero => simp [budE] at hF
    | succ F =>
      simp only [wfE] at hw
      simp only [budE] at hF
      obtain ⟨h1, h2⟩ := ih F ctx gs σ g k (by omega) he hh hw
      simp only [toAstE, ev_xor, eval]
      cases hev : eval vmSem (svConst ctab) g e with
      | none =>
        obtain ⟨err, hne, herr⟩ := h2 hev
        exact ⟨fun v hv => (by cases hv), fun _ => ⟨err, hne, EErr.bind_left herr⟩⟩
      | some a =>
        have ha := h1 a hev
        obtain ⟨av, has⟩ := a
        cases av <;> simp only [vmSem] <;> first
          | exact ⟨fun v hv => (by cases hv), fun _ => ⟨_, fun hh => Err.noConfusion hh,
              EErr.bind_right ha (eerr_eRt _ gs σ)⟩⟩
          | (refine ⟨fun v hv => ?_, fun hv => by cases hv⟩
             simp only [Option.some.injEq] at hv
             subst hv
             exact EOk.bind ha (EOk.pure _ gs σ))
  | lnot e ih =>
    intro F ctx gs σ g k hF he hh hw
    cases F with
    | zero => simp [budE] at hF
    | succ F =>
      simp only [wfE] at hw
      simp only [budE] at hF
      obtain ⟨h1, h2⟩ := ih F ctx gs σ g k (by omega) he hh hw
      simp only [toAstE, ev_not, eval]
      cases hev : eval vmSem (svConst ctab) g e with
      | none =>
        obtain ⟨err, hne, herr⟩ := h2 hev
        exact ⟨fun v hv => (by cases hv), fun _ => ⟨err, hne, EErr.bind_left herr⟩⟩
      | some a =>
        refine ⟨fun v hv => ?_, fun hv => by cases hv⟩
        simp only [Option.some.injEq] at hv
        subst hv
        exact EOk.bind (h1 a hev) (EOk.bind (EOk.lift (isFalsy_sem a σ)) (EOk.pure _ gs σ))
  | plus e ih =>
    intro F ctx gs σ g k hF he hh hw
    cases F with
    | zero => simp [budE] at hF
    | succ F =>
      simp only [wfE] at hw
      simp only [budE] at hF
      obtain ⟨h1, h2⟩ := ih F ctx gs σ g k (by omega) he hh hw
      simp only [toAstE, ev_plus, eval]
      refine ⟨fun v hv => EOk.bind (h1 v hv) (EOk.pure _ gs σ), fun hv => ?_⟩
      obtain ⟨err, hne, herr⟩ := h2 hv
      exact ⟨err, hne, EErr.bind_left herr⟩
  | cond c t f ihc iht ihf =>
    intro F ctx gs σ g k hF he hh hw
    cases F with
    | zero => simp [budE] at hF
    | succ F =>
      simp only [wfE, Bool.and_eq_true] at hw
      obtain ⟨⟨hwc, hwt⟩, hwf⟩ := hw
      simp only [budE] at hF
      obtain ⟨hc1, hc2⟩ := ihc F ctx gs σ g _ (by omega) he hh hwc
      obtain ⟨ht1, ht2⟩ := iht F ctx gs σ g _ (by omega) he hh hwt
      obtain ⟨hf1, hf2⟩ := ihf F ctx gs σ g _ (by omega) he hh hwf
      simp only [toAstE, evalExpr.eq_12, eval]
      cases hev : eval vmSem (svConst ctab) g c with
      | none =>
        obtain ⟨err, hne, herr⟩ := hc2 hev
        exact ⟨fun v hv => (by cases hv), fun _ => ⟨err, hne, EErr.bind_left herr⟩⟩
      | some a =>
        have hfal := EOk.lift (gs := gs) (isFalsy_sem a σ)
        simp only
        cases hb : vmSem.falsy a with
        | true =>
          rw [hb] at hfal
          simp only [if_true]
          refine ⟨fun v hv => EOk.bind (hc1 a hev) (EOk.bind hfal (hf1 v hv)), fun hv => ?_⟩
          obtain ⟨err, hne, herr⟩ := hf2 hv
          exact ⟨err, hne, EErr.bind_right (hc1 a hev) (EErr.bind_right hfal herr)⟩
        | false =>
          rw [hb] at hfal
          simp only [Bool.false_eq_true, if_false]
          refine ⟨fun v hv => EOk.bind (hc1 a hev) (EOk.bind hfal (ht1 v hv)), fun hv => ?_⟩
          obtain ⟨err, hne, herr⟩ := ht2 hv
          exact ⟨err, hne, EErr.bind_right (hc1 a hev) (EErr.bind_right hfal herr)⟩
  | land l r ihl ihr =>
    intro F ctx gs σ g k hF he hh hw
    cases F with
    | zero => simp [budE] at hF
    | succ F =>
      simp only [wfE, Bool.and_eq_true] at hw
      obtain ⟨hwl, hwr⟩ := hw
      simp only [budE] at hF
      obtain ⟨hl1, hl2⟩ := ihl F ctx gs σ g _ (by omega) he hh hwl
      obtain ⟨hr1, hr2⟩ := ihr F ctx gs σ g _ (by omega) he hh hwr
      simp only [toAstE, ev_land, eval]
      cases hev : eval vmSem (svConst ctab) g l with
      | none =>
        obtain ⟨err, hne, herr⟩ := hl2 hev
        exact ⟨fun v hv => (by cases hv), fun _ => ⟨err, hne, EErr.bind_left herr⟩⟩
      | some a =>
        have hfal := EOk.lift (gs := gs) (isFalsy_sem a σ)
        simp only
        cases hb : vmSem.falsy a with
        | true =>
          rw [hb] at hfal
          simp only [if_true]
          refine ⟨fun v hv => ?_, fun hv => by cases hv⟩
          simp only [Option.some.injEq] at hv
          subst hv
          exact EOk.bind (hl1 a hev) (EOk.bind hfal (EOk.pure _ gs σ))
        | false =>
          rw [hb] at hfal
          simp only [Bool.false_eq_true, if_false]
          refine ⟨fun v hv => EOk.bind (hl1 a hev) (EOk.bind hfal (hr1 v hv)), fun hv => ?_⟩
          obtain ⟨err, hne, herr⟩ := hr2 hv
          exact ⟨err, hne, EErr.bind_right (hl1 a hev) (EErr.bind_right hfal herr)⟩
  | lor l r ihl ihr =>
    intro F ctx gs σ g k hF he hh hw
    cases F with
    | zero => simp [budE] at hF
    | succ F =>
      simp only [wfE, Bool.and_eq_true] at hw
      obtain ⟨hwl, hwr⟩ := hw
      simp only [budE] at hF
      obtain ⟨hl1, hl2⟩ := ihl F ctx gs σ g _ (by omega) he hh hwl
      obtain ⟨hr1, hr2⟩ := ihr F ctx gs σ g _ (by omega) he hh hwr
      simp only [toAstE, ev_lor, eval]
      cases hev : eval vmSem (svConst ctab) g l with
      | none =>
        obtain ⟨err, hne, herr⟩ := hl2 hev
        exact ⟨fun v hv => (by cases hv), fun _ => ⟨err, hne, EErr.bind_left herr⟩⟩
      | some a =>
        have hfal := EOk.lift (gs := gs) (isFalsy_sem a σ)
        simp only
        cases hb : vmSem.falsy a with
        | true =>
          rw [hb] at hfal
          simp only [if_true]
          refine ⟨fun v hv => EOk.bind (hl1 a hev) (EOk.bind hfal (hr1 v hv)), fun hv => ?_⟩
          obtain ⟨err, hne, herr⟩ := hr2 hv
          exact ⟨err, hne, EErr.bind_right (hl1 a hev) (EErr.bind_right hfal herr)⟩
        | false =>
          rw [hb] at hfal
          simp only [Bool.false_eq_true, if_false]
          refine ⟨fun v hv => ?_, fun hv => by cases hv⟩
          simp only [Option.some.injEq] at hv
          subst hv
          exact EOk.bind (hl1 a hev) (EOk.bind hfal (EOk.pure _ gs σ))

end

end Tengo.Proofs.C01Bridge

import Tengo.Proofs.C20StmtEq
/-!
C20 — statements, token level: the printed token stream of a statement (`layS`, blanks as `Node.String()` puts them),
the parsed form (`pfS`: a ParenExpr around every operator node of every expression), the fragment `FragS`, and the
theorem `stmtOk` / `stmtsOk`: on any token list with the (kind, literal) sequence of the printed form, followed by a
continuation that starts with `;` or `}`, `parseStmt` returns `pfS s` and leaves the continuation without its `;`.
-/
namespace Tengo.Proofs.C20Stmt
open Tengo.Model.Token Tengo.Model.Scanner Tengo.Model.Ast Tengo.Model.Parser Tengo.Model.Literal
open Tengo.Proofs.C20Parser Tengo.Proofs.C20BytesScan Tengo.Proofs.C20BytesParse Tengo.Proofs.C20BytesPrint
open Tengo.Proofs.C20Bytes2Scan Tengo.Proofs.C20Bytes2Stream Tengo.Proofs.C20Bytes2Parse
open Tengo.Proofs.C20StmtEq

/-! ### Layout, parsed form, fragment -/

/-- An explicit `;` (the scanner's literal for it is ";"). -/
def semiE : El2 := .it (.lit .Semicolon [59])
/-- A keyword. -/
def kwE (t : Tok) : El2 := .it (.word t.bytes)
/-- `{ … }` -/
def blk (l : List El2) : List El2 := opE .LBrace :: (l ++ [opE .RBrace])

def layRet : OptExpr → List El2
  | .none => []
  | .some e => .sp :: layE e

/-- Condition of `for c {…}`: `ForStmt.String()` writes a blank behind it. -/
def layCond : OptExpr → List El2
  | .none => []
  | .some e => layE e ++ [.sp]

def layLabel : Option Bs → List El2
  | none => []
  | some l => [.sp, .it (.word l)]

def isNoneS : OptStmt → Bool
  | .none => true
  | .some _ => false

mutual
  /-- The printed token stream of a statement. -/
  def layS : Stmt → List El2
    | .expr e => layE e
    | .assign tok l r => layArgs l ++ .sp :: opE tok :: .sp :: layArgs r
    | .incdec tok e => layE e ++ [opE tok]
    | .ret o => kwE .Return :: layRet o
    | .branch tok l => kwE tok :: layLabel l
    | .ifS i c body els => kwE .If :: .sp :: (layInit i ++ (layE c ++ .sp :: (blk (laySs body) ++ layElse els)))
    | .forS i c p body =>
      if isNoneS i && isNoneS p then kwE .For :: .sp :: (layCond c ++ blk (laySs body))
      else kwE .For :: .sp :: (layOS i ++ .sp :: semiE :: .sp ::
        (layCond c ++ .sp :: semiE :: .sp :: (layOS p ++ blk (laySs body))))
    | .forIn k v it body =>
      kwE .For :: .sp :: .it (.word (k.getD [])) :: opE .Comma :: .sp :: .it (.word (v.getD [])) :: .sp :: kwE .In :: .sp ::
        (layE it ++ .sp :: blk (laySs body))
    | .block ss => blk (laySs ss)
    | _ => []
  def laySs : Stmts → List El2
    | .nil => []
    | .cons s ss => layS s ++ laySTail ss
  /-- `; s` for every further statement. -/
  def laySTail : Stmts → List El2
    | .nil => []
    | .cons s ss => semiE :: .sp :: (layS s ++ laySTail ss)
  def layElse : OptStmt → List El2
    | .none => []
    | .some s => .sp :: kwE .Else :: .sp :: layS s
  /-- `init; ` of an if statement. -/
  def layInit : OptStmt → List El2
    | .none => []
    | .some s => layS s ++ [semiE, .sp]
  /-- init / post of a three-clause for. -/
  def layOS : OptStmt → List El2
    | .none => []
    | .some s => layS s
end

mutual
  /-- The parsed form of a statement: `pf` on every expression. -/
  def pfS : Stmt → Stmt
    | .expr e => .expr (pf e)
    | .assign t l r => .assign t (pfs l) (pfs r)
    | .incdec t e => .incdec t (pf e)
    | .ifS i c b e => .ifS (pfOS i) (pf c) (pfSs b) (pfOS e)
    | .forS i c p b => .forS (pfOS i) (pfO c) (pfOS p) (pfSs b)
    | .forIn k v it b => .forIn k v (pf it) (pfSs b)
    | .block ss => .block (pfSs ss)
    | .branch t l => .branch t l
    | .ret o => .ret (pfO o)
    | .export e => .export (pf e)
    | .empty b => .empty b
    | .bad => .bad
  def pfSs : Stmts → Stmts
    | .nil => .nil
    | .cons s ss => .cons (pfS s) (pfSs ss)
  def pfOS : OptStmt → OptStmt
    | .none => .none
    | .some s => .some (pfS s)
end

mutual
  theorem pfS_strip : (s : Stmt) → (pfS s).strip = s.strip
    | .expr e => by simp [pfS, Stmt.strip, pf_strip]
    | .assign t l r => by simp [pfS, Stmt.strip, pfs_strip]
    | .incdec t e => by simp [pfS, Stmt.strip, pf_strip]
    | .ifS i c b e => by simp [pfS, Stmt.strip, pf_strip, pfOS_strip i, pfOS_strip e, pfSs_strip b]
    | .forS i c p b => by simp [pfS, Stmt.strip, pfO_strip, pfOS_strip i, pfOS_strip p, pfSs_strip b]
    | .forIn k v it b => by simp [pfS, Stmt.strip, pf_strip, pfSs_strip b]
    | .block ss => by simp [pfS, Stmt.strip, pfSs_strip ss]
    | .branch t l => by simp [pfS]
    | .ret o => by simp [pfS, Stmt.strip, pfO_strip]
    | .export e => by simp [pfS, Stmt.strip, pf_strip]
    | .empty b => by simp [pfS]
    | .bad => by simp [pfS]
  theorem pfSs_strip : (ss : Stmts) → (pfSs ss).strip = ss.strip
    | .nil => by simp [pfSs]
    | .cons s ss => by
      have h1 := pfS_strip s
      have h2 := pfSs_strip ss
      cases s <;> simp only [pfSs, pfS, Stmts.strip, h2] <;> simp only [pfS] at h1 <;> rw [h1]
  theorem pfOS_strip : (o : OptStmt) → (pfOS o).strip = o.strip
    | .none => by simp [pfOS]
    | .some s => by simp [pfOS, OptStmt.strip, pfS_strip s]
end

def nonEmpty : Exprs → Bool
  | .nil => false
  | .cons _ _ => true

def single : Exprs → Bool
  | .cons _ .nil => true
  | _ => false

/-- Shapes of an assignment the parser produces: `a, b = x, y` / `a, b := x, y` (non-empty lists), `a op= x` (one each). -/
def asgShape (tok : Tok) (l r : Exprs) : Bool :=
  ((tok == .Assign || tok == .Define) && nonEmpty l && nonEmpty r) ||
  (isOpAssign tok && tok != .Define && single l && single r)

def labelOk : Option Bs → Bool
  | none => true
  | some l => wordAtom .Ident l

/-- **The side condition that excludes finding C20-3.** The printed form of the expression starts with `{` (the
expression is a map literal, or a selector / index / slice / call chain on one): as the condition of `if` / `for` it is
read as the body. -/
def braceFirst (c : Expr) : Bool :=
  match keysOf (layE c) with
  | (.LBrace, _) :: _ => true
  | _ => false

def isBlock : Stmt → Bool
  | .block _ => true
  | _ => false

/-- An else branch is a block or an if statement. -/
def elseKind : Stmt → Bool
  | .block _ => true
  | .ifS _ _ _ _ => true
  | _ => false

/-- A simple statement: what may stand as init / post. -/
def isSimple : Stmt → Bool
  | .expr _ => true
  | .assign _ _ _ => true
  | .incdec _ _ => true
  | _ => false

def nameOk : Option Bs → Bool
  | some n => wordAtom .Ident n
  | none => false

def braceFirstO : OptExpr → Bool
  | .none => false
  | .some c => braceFirst c

/-- The printed simple statement starts with `{`. -/
def firstExprBrace : Stmt → Bool
  | .expr e => braceFirst e
  | .assign _ (.cons e _) _ => braceFirst e
  | .incdec _ e => braceFirst e
  | _ => false

mutual
  /-- The statement fragment. A BlockStmt occurs as an else branch only (the parser never produces one elsewhere:
  a statement that starts with `{` is an expression statement with a map literal). -/
  def FragS (fo : Bs → Option Nat) : Stmt → Prop
    | .expr e => Frag2 fo e
    | .assign tok l r => asgShape tok l r = true ∧ Frag2s fo l ∧ Frag2s fo r
    | .incdec tok e => (tok = .Inc ∨ tok = .Dec) ∧ Frag2 fo e
    | .ret o => Frag2O fo o
    | .branch tok l => (tok = .Break ∨ tok = .Continue) ∧ labelOk l = true
    | .ifS i c body els => FragInit fo i ∧ Frag2 fo c ∧ braceFirst c = false ∧ FragSs fo body ∧ FragEl fo els
    | .forS i c p body => FragInit fo i ∧ FragInit fo p ∧ Frag2O fo c ∧
        ((isNoneS i && isNoneS p) = true → braceFirstO c = false) ∧ FragSs fo body
    | .forIn k v it body => nameOk k = true ∧ nameOk v = true ∧ Frag2 fo it ∧ FragSs fo body
    | .block ss => FragSs fo ss
    | _ => False
  def FragSs (fo : Bs → Option Nat) : Stmts → Prop
    | .nil => True
    | .cons s ss => isBlock s = false ∧ FragS fo s ∧ FragSs fo ss
  def FragEl (fo : Bs → Option Nat) : OptStmt → Prop
    | .none => True
    | .some s => elseKind s = true ∧ FragS fo s
  /-- init of `if`, init / post of `for`: a simple statement that does not start with `{`. -/
  def FragInit (fo : Bs → Option Nat) : OptStmt → Prop
    | .none => True
    | .some s => isSimple s = true ∧ firstExprBrace s = false ∧ FragS fo s
end

/-! ### Keys -/

@[simp] theorem keysOf_semiE (r : List El2) : keysOf (semiE :: r) = (.Semicolon, [59]) :: keysOf r := rfl
@[simp] theorem keysOf_kwE (t : Tok) (r : List El2) : keysOf (kwE t :: r) = (Tok.lookup t.bytes, t.bytes) :: keysOf r := rfl
@[simp] theorem keysOf_blk (l : List El2) : keysOf (blk l) = (.LBrace, []) :: (keysOf l ++ [(.RBrace, [])]) := by
  simp [blk]

theorem kws : Tok.lookup Tok.If.bytes = .If ∧ Tok.lookup Tok.For.bytes = .For ∧ Tok.lookup Tok.Return.bytes = .Return ∧
    Tok.lookup Tok.Break.bytes = .Break ∧ Tok.lookup Tok.Continue.bytes = .Continue ∧
    Tok.lookup Tok.Else.bytes = .Else := by decide +kernel

theorem kw_in : Tok.lookup Tok.In.bytes = .In := by decide +kernel

/-! ### Stop tokens -/

def stmtStop (t : Tok) : Bool := simpleEnd t || isOpAssign t || t == .Assign || t == .Inc || t == .Dec || t == .In

theorem stop0_stmt (t : Token) (rest : Toks) (h : stmtStop t.tok = true) : Stop0 (t :: rest) ∧ t.tok ≠ .Comma := by
  have : ∀ k : Tok, stmtStop k = true →
      k ≠ .Period ∧ k ≠ .LBrack ∧ k ≠ .LParen ∧ k.prec = 0 ∧ k ≠ .Question ∧ k ≠ .Comma := by
    intro k; cases k <;> simp [stmtStop, simpleEnd, isOpAssign, Tok.prec]
  obtain ⟨h1, h2, h3, h4, h5, h6⟩ := this t.tok h
  exact ⟨⟨⟨h1, h2, h3⟩, h4, h5⟩, h6⟩

theorem semiNext_stop (rest : Toks) (h : SemiNext rest) : Stop0 rest ∧ tk rest ≠ .Comma := by
  cases rest with
  | nil => rcases h with h | h <;> simp [tk] at h
  | cons t r =>
    exact stop0_stmt t r (by rcases h with h | h <;> simp only [tk] at h <;> rw [h] <;> decide)

variable {fo : Bs → Option Nat}

/-- `parseExprList` on a printed, comma separated list. -/
theorem exprListOk : (e : Expr) → (es : Exprs) → Frag2 fo e → Frag2s fo es → ∀ (ts rest : Toks),
    ts.map key = keysOf (layE e ++ layTail es) → Stop0 rest → tk rest ≠ .Comma →
    run (parseExprList fo (ts ++ rest)) = some (pfs (.cons e es), rest)
  | e, .nil, he, _, ts, rest, hk, hs, hc => by
    simp only [layTail, List.append_nil] at hk
    rw [run_parseExprList, (primOk e he).expr ts rest hk hs]
    cases rest with
    | nil => simp [pfs]
    | cons c r1 => simp only [tk] at hc; simp [hc, pfs]
  | e, .cons e' es', he, hes, ts, rest, hk, hs, hc => by
    simp only [layTail, keysOf_append, keysOf_opE, keysOf_sp] at hk
    obtain ⟨t1, t2, rfl, hk1, hk2⟩ := map_key_append hk
    obtain ⟨cm, t3, rfl, hcm, -, hk3⟩ := map_key_cons hk2
    simp only at hcm
    have ih := exprListOk e' es' hes.1 hes.2 t3 rest (by rw [hk3, keysOf_append]) hs hc
    rw [List.append_assoc, List.cons_append, run_parseExprList,
      (primOk e he).expr t1 _ hk1 (stop0_tok cm _ (by rw [hcm]; decide))]
    simp [hcm, ih, pfs]

/-! ### What is proved for a statement, a block, a statement list, an else branch -/

def startTok (t : Tok) : Bool :=
  isSimpleStart t || t == .Return || t == .If || t == .For || t == .Break || t == .Continue

theorem startTok_ne {t : Tok} (h : startTok t = true) : t ≠ .RBrace ∧ t ≠ .EOF ∧ t ≠ .Semicolon := by
  cases t <;> simp [startTok, isSimpleStart] at h <;> decide

/-- The key list starts with a token on which `parseStmt` starts a statement. -/
def Head (l : List (Tok × Bs)) : Prop := ∃ k ks, l = k :: ks ∧ startTok k.1 = true

structure SOk (fo : Bs → Option Nat) (s : Stmt) : Prop where
  parse : ∀ ts rest, ts.map key = keysOf (layS s) → SemiNext rest →
    run (parseStmt fo (ts ++ rest)) = some (pfS s, dropSemi rest)
  head : Head (keysOf (layS s))

def BOk (fo : Bs → Option Nat) (ss : Stmts) : Prop := ∀ ts rest, ts.map key = keysOf (blk (laySs ss)) →
  run (parseBlock fo (ts ++ rest)) = some (pfSs ss, rest)

/-- The statement list ends here: `}` or the end of the file. -/
def ListEnd (r : Toks) : Prop := tk r = .RBrace ∨ tk r = .EOF

def LOk (fo : Bs → Option Nat) : Stmts → Prop
  | .nil => True
  | .cons s ss => ∀ ts rest, ts.map key = keysOf (layS s ++ laySTail ss) → SemiNext rest → ListEnd (dropSemi rest) →
      run (parseStmtList fo (ts ++ rest)) = some (pfSs (.cons s ss), dropSemi rest)

def EOk (fo : Bs → Option Nat) (e : OptStmt) : Prop :=
  ∀ (init : OptStmt) (c : Expr) (body : Stmts) (ts0 te rest : Toks), te.map key = keysOf (layElse e) → SemiNext rest →
    run (parseBlock fo ts0) = some (body, te ++ rest) →
    run (parseIfTail fo init c ts0) = some (.ifS init c body (pfOS e), dropSemi rest)

theorem list_end (r : Toks) (h : ListEnd r) : run (parseStmtList fo r) = some (.nil, r) := by
  cases r with
  | nil => rw [parseStmtList]; simp
  | cons t rest => exact list_stop fo t rest h

theorem semiNext_split (rest : Toks) (h : SemiNext rest) :
    ∃ x r1, rest = x :: r1 ∧ simpleEnd x.tok = true ∧ (x.tok = .Semicolon ∨ x.tok = .RBrace) := by
  cases rest with
  | nil => rcases h with h | h <;> simp [tk] at h
  | cons x r1 =>
    refine ⟨x, r1, rfl, ?_, h⟩
    rcases h with h | h <;> simp only [tk] at h <;> rw [h] <;> decide

theorem head_prim {x : Expr} (c : PrimOk fo x) (b : List (Tok × Bs)) : Head (keysOf (layE x) ++ b) := by
  obtain ⟨k, ks, hh, -, hs⟩ := c.head
  exact ⟨k, ks ++ b, by rw [hh]; rfl, by simp [startTok, hs]⟩

/-- A simple statement that starts with a printed expression, as a statement. -/
theorem stmt_of_simple {x : Expr} (c : PrimOk fo x) (t1 t2 rest : Toks) (s : Stmt)
    (hk1 : t1.map key = keysOf (layE x))
    (hp : run (parseSimpleStmt fo false (t1 ++ (t2 ++ rest))) = some (s, rest)) (hn : SemiNext rest) :
    run (parseStmt fo (t1 ++ (t2 ++ rest))) = some (s, dropSemi rest) := by
  obtain ⟨t, r, rfl, hst⟩ := c.first t1 rest hk1
  rw [List.cons_append] at hp ⊢
  exact stmt_simple fo t _ rest s hst hp hn

theorem bOk_of (ss : Stmts) (h : LOk fo ss) : BOk fo ss := by
  intro ts rest hk
  rw [keysOf_blk] at hk
  obtain ⟨lb, t1, rfl, hlb, -, hk1⟩ := map_key_cons hk
  obtain ⟨tb, t2, rfl, hkb, hk2⟩ := map_key_append hk1
  obtain ⟨rb, t3, rfl, hrb, -, hk3⟩ := map_key_cons hk2
  have := map_key_nil hk3
  subst this
  simp only at hlb hrb
  have hrest : ListEnd (rb :: rest) := Or.inl hrb
  have hd : dropSemi (rb :: rest) = rb :: rest := by simp [dropSemi, hrb]
  have hl : run (parseStmtList fo (tb ++ rb :: rest)) = some (pfSs ss, rb :: rest) := by
    cases ss with
    | nil =>
      simp only [laySs, keysOf_nil] at hkb
      have := map_key_nil hkb
      subst this
      exact list_end _ hrest
    | cons s ss' =>
      simp only [laySs] at hkb
      have := h tb (rb :: rest) hkb (Or.inr hrb) (by rw [hd]; exact hrest)
      rw [hd] at this
      exact this
  have e : (lb :: (tb ++ [rb])) ++ rest = lb :: (tb ++ rb :: rest) := by simp
  rw [e]
  exact block_eq fo lb rb _ rest _ hlb hl hrb

end Tengo.Proofs.C20Stmt

import Tengo.Proofs.C02CompileProg
import Tengo.Proofs.C02CompileFobjs
import Tengo.Proofs.C03Twin
/-!
C03 at SOURCE level, part 1: from the block invariants of the compiler proof (`Tengo/Proofs/C02Compile*`)
to the hypotheses of the universal relocation theorem (`TwinCode`, `Tengo/Proofs/C03Reloc.lean`).

* `core_wfjumps`: the jump condition of a closed block (`Core … NoT`) is `WFJumps` with end = block end.
* `main_closedJumps` / `main_closedFall`: the main function (`B ++ [SUSPEND]`) keeps its jumps and its
  fall-throughs inside.
* `UnoptTwin bc mainIs raws`: `raws (k + 1)` is a raw (un-optimized) body of function constant `k` of the
  compiled program `bc`: it decodes, its jumps are well formed, it is shorter than `2^32` bytes and the
  optimizer model makes exactly the stored body of it.
* `unopt_twin_exists`: every program the compiler model compiles (within the size hypotheses of
  `compile_verifies`) has such raw bodies — the ones recorded by the invariant of the compiler proof at
  `optimizeFunc` (`FnRec`): closed statement blocks from height 0 to height 0.
* `twinOf code raws`: the unoptimized twin; `unopt_twin_code`: it has the shape `TwinCode`;
  `unopt_twin_optimized`: the compiled program is the twin with the optimizer model's bodies.
-/
set_option linter.unusedVariables false
set_option linter.unusedSimpArgs false
namespace Tengo.Proofs.C03Source
open Tengo.Model Tengo.Model.Opcodes Tengo.Model.Compiler Tengo.Model.Optimizer Tengo.Model.Verifier
open Tengo.Model.Spec (Expr Stmt)
open Tengo.Proofs.C03 Tengo.Proofs.C03Reloc Tengo.Proofs.C02Compile

/-! ## 1. From closed blocks to the predicates of the relocation theorem -/

/-- **core_wfjumps.** In a closed block every jump carries one operand, and it is the position of an
instruction of the block or the block's end. -/
theorem core_wfjumps {hi a b : Nat} {H : Nat → Nat} {B : List Instr} (hc : Core 0 hi a b H B NoT)
    (hsh : ∀ i ∈ B, Shape i) : WFJumps B hi := by
  intro i hi' hj
  obtain ⟨ws, hws, hlen⟩ := hsh i hi'
  rw [widths_jump hj] at hws
  injection hws with hws
  subst hws
  obtain ⟨l, hl, hq⟩ := hc.ok i hi'
  obtain ⟨k, hk⟩ := succs_jump_target hj hl
  cases hargs : i.args with
  | nil => rw [hargs] at hlen; cases hlen
  | cons t rest =>
    refine ⟨t, rfl, ?_⟩
    rw [hargs] at hk
    simp only [List.headD_cons] at hk
    rcases hq _ hk with ⟨ht, _⟩ | hf
    · exact ht
    · exact hf.elim

/-- In a laid-out list every instruction is followed by an instruction, or ends the list. -/
theorem layout_next {s : Nat} {L : List Instr} (hl : Layout s L) {i : Instr} (hi : i ∈ L) :
    (∃ j ∈ L, j.pos = i.pos + i.size) ∨ i.pos + i.size = s + totalSize L := by
  obtain ⟨L₁, L₂, rfl⟩ := List.append_of_mem hi
  obtain ⟨h1, h2⟩ := layout_split hl
  obtain ⟨hp, h3⟩ := h2
  cases L₂ with
  | nil =>
    right
    rw [hp, totalSize_append, totalSize_cons, totalSize_nil]
    omega
  | cons j L₂ =>
    left
    refine ⟨j, by simp, ?_⟩
    rw [h3.1, hp]

theorem susp_not_jump (p : Nat) : isJump (suspI p).op = false := rfl
theorem susp_not_fall (p : Nat) : VM.canFallB (suspI p).op = false := rfl

/-- the jumps of `B ++ [SUSPEND]` land on its instructions -/
theorem main_closedJumps {hi : Nat} {H : Nat → Nat} {B : List Instr} (hc : Core 0 hi 0 0 H B NoT)
    (hsh : ∀ i ∈ B, Shape i) : ClosedJumps (B ++ [suspI hi]) := by
  intro i hi' hj
  rcases List.mem_append.mp hi' with hm | hm
  · obtain ⟨t, ht, htgt⟩ := core_wfjumps hc hsh i hm hj
    rcases htgt with e | ⟨j, hj', hp⟩
    · exact ⟨suspI hi, by simp, by rw [ht, e]; rfl⟩
    · exact ⟨j, List.mem_append_left _ hj', by rw [ht, hp]⟩
  · simp only [List.mem_singleton] at hm
    subst hm
    rw [susp_not_jump] at hj
    cases hj

/-- every instruction of `B ++ [SUSPEND]` that can fall through is followed by an instruction -/
theorem main_closedFall {hi : Nat} {B : List Instr} (hl : Layout 0 (B ++ [suspI hi])) :
    ClosedFall (B ++ [suspI hi]) := by
  intro i hi' hcf
  rcases layout_next hl hi' with h | h
  · exact h
  · exfalso
    rcases List.mem_append.mp hi' with hm | hm
    · have h1 := mem_range (layout_split hl).1 hm
      rw [totalSize_append, totalSize_cons] at h
      have := size_pos (suspI hi)
      omega
    · simp only [List.mem_singleton] at hm
      subst hm
      rw [susp_not_fall] at hcf
      cases hcf

/-! ## 2. The raw bodies of a compiled program -/

/-- `raws (k + 1)` is an un-optimized body of function constant `k` of `bc`, `mainIs` the decoded main
function: exactly what `TwinCode` asks of the twin, said of the compiler's result. -/
structure UnoptTwin (bc : Bytecode') (mainIs : List Instr) (raws : Nat → Bytes) : Prop where
  main_dec : decode bc.main = some mainIs
  main_ne : mainIs ≠ []
  main_jumps : ClosedJumps mainIs
  main_fall : ClosedFall mainIs
  fns : ∀ k code nl np va, bc.consts[k]? = some (Compiler.Const.fn code nl np va) →
    (∃ is, decode (raws (k + 1)) = some is ∧ WFJumps is (raws (k + 1)).length) ∧
    (raws (k + 1)).length < 2 ^ 32 ∧ optBody (raws (k + 1)) = code.toArray

/-- What the compiler proof knows of the raw body of a function: it is the encoding of an instruction
list `Lb` that is a closed statement block (height 0 at its start and at its end, jumps inside, heights
consistent along all paths), shorter than `2^30` bytes. -/
def RawClosed (raw : Bytes) : Prop :=
  ∃ (Lb : List Instr) (H : Nat → Nat), raw = encode Lb ∧ decode raw = some Lb ∧
    Core 0 raw.length 0 0 H Lb NoT ∧ raw.length < 2 ^ 30

/-- the record of one function constant, as a statement about its raw body -/
theorem fnrec_raw {cs : List Compiler.Const} {F : List Nat} {G : Nat} {code : Bytes} {nl n : Nat}
    (h : FnRec cs F G code nl n) (hclen : cs.length ≤ 65536) (hG : G ≤ 65536) :
    ∃ raw, RawClosed raw ∧ (∃ is, decode raw = some is ∧ WFJumps is raw.length) ∧
      optBody raw = code.toArray := by
  obtain ⟨Lb, H, r, hlay, hshape, hopt, hcode, hcore, hops, hnl, hn, hsz⟩ := h
  have hbnd : Bnd cs ⟨nl, n, G, true⟩ := ⟨hclen, hnl, by show n ≤ 256; omega, hG⟩
  have hdec : decode (encode Lb) = some Lb := core_decode hcore hshape hops hbnd (by omega)
  have hlen : (encode Lb).length = totalSize Lb := encode_length hshape
  have hcore' : Core 0 (encode Lb).length 0 0 H Lb NoT := by rw [hlen]; exact hcore
  refine ⟨encode Lb, ⟨Lb, H, rfl, hdec, hcore', by omega⟩, ⟨Lb, hdec, core_wfjumps hcore' hshape⟩, ?_⟩
  rw [optBody_eq hopt, hcode]

/-- **unopt_twin_exists.** Whatever the compiler model compiles has raw bodies: for every function
constant a closed statement block of which the optimizer model makes exactly the stored body; and the
main function is a closed block followed by SUSPEND. -/
theorem unopt_twin_exists {ss : List Stmt} {inputs : List String} {bc : Bytecode'}
    (h : compileFile ss inputs = .ok bc) (hsz : szSs fuel ss < 2 ^ 30)
    (hclen : bc.consts.length ≤ 65536) (hgle : bc.maxGlobals ≤ 65536) :
    ∃ (mainIs : List Instr) (raws : Nat → Bytes), UnoptTwin bc mainIs raws ∧
      (∃ B, mainIs = B ++ [suspI (totalSize B)]) ∧
      (∀ k code nl np va, bc.consts[k]? = some (Compiler.Const.fn code nl np va) → RawClosed (raws (k + 1))) := by
  obtain ⟨s, B, F, H, t', hmain, hcs, htab, hG, hinv, hcore, hszB⟩ := compile_run h hsz
  have hwfc := hinv.wfc
  rw [htab] at hwfc
  have hblock : t'.block = false := hwfc
  have henv : C02Compile.envOf s.tables = ⟨0, 0, bc.maxGlobals, false⟩ := by
    rw [htab, hG]
    simp [C02Compile.envOf, locMax, freeCnt, rootMax, globalCtx, hblock]
  have hops : ∀ i ∈ B, opReq bc.consts F ⟨0, 0, bc.maxGlobals, false⟩ i := by
    intro i hi
    have := hinv.ops i hi
    rw [henv, ← hcs] at this
    exact this
  have hcok : ConstsOK bc.consts F bc.maxGlobals := by
    have := hinv.cok
    rw [htab, ← hcs] at this
    rw [hG]; exact this
  -- main
  have hbnd : Bnd bc.consts ⟨0, 0, bc.maxGlobals, false⟩ := ⟨hclen, by simp, by simp, hgle⟩
  have hwf : WFCode B := core_wf hcore hinv.em.shape hops hbnd (by omega)
  have hdec := main_decode hcore.lay hwf
  have hlay : Layout 0 (B ++ [suspI (totalSize B)]) := layout_append_single hcore.lay (by simp [suspI])
  -- the functions
  have hall : ∀ idx : Nat, ∃ raw : Bytes, ∀ k code nl np va, idx = k + 1 →
      bc.consts[k]? = some (Compiler.Const.fn code nl np va) →
      RawClosed raw ∧ (∃ is, decode raw = some is ∧ WFJumps is raw.length) ∧ optBody raw = code.toArray := by
    intro idx
    cases idx with
    | zero => exact ⟨[], fun k _ _ _ _ hk => by omega⟩
    | succ k0 =>
      cases hck : bc.consts[k0]? with
      | none =>
        refine ⟨[], fun k code nl np va hk hc => ?_⟩
        have : k = k0 := by omega
        subst this
        rw [hck] at hc; cases hc
      | some c =>
        cases c with
        | fn code0 nl0 np0 va0 =>
          obtain ⟨n, _, hrec⟩ := hcok k0 code0 nl0 np0 va0 hck
          obtain ⟨raw, h1, h2, h3⟩ := fnrec_raw hrec hclen hgle
          refine ⟨raw, fun k code nl np va hk hc => ?_⟩
          have : k = k0 := by omega
          subst this
          rw [hck] at hc
          injection hc with hc
          injection hc with e1 e2 e3 e4
          subst e1
          exact ⟨h1, h2, h3⟩
        | _ =>
          refine ⟨[], fun k code nl np va hk hc => ?_⟩
          have : k = k0 := by omega
          subst this
          rw [hck] at hc
          injection hc with hc
          cases hc
  obtain ⟨raws, hraws⟩ := Classical.skolem.mp hall
  refine ⟨B ++ [suspI (totalSize B)], raws, ⟨by rw [hmain]; exact hdec, by simp,
    main_closedJumps hcore hinv.em.shape, main_closedFall hlay, ?_⟩, ⟨B, rfl⟩, ?_⟩
  · intro k code nl np va hk
    obtain ⟨h1, h2, h3⟩ := hraws (k + 1) k code nl np va rfl hk
    obtain ⟨Lb, Hb, _, _, _, hl⟩ := h1
    exact ⟨h2, by omega, h3⟩
  · intro k code nl np va hk
    exact (hraws (k + 1) k code nl np va rfl hk).1

/-! ## 3. The twin as a program of the whole-VM model -/

/-- bodies of the unoptimized twin: main as it is, function `idx` gets `raws idx` followed by `RET 0` -/
def twinBodies (code : VM.Code) (raws : Nat → Bytes) : Nat → Array UInt8
  | 0 => code.main.insts
  | idx + 1 => (twinBytes (raws (idx + 1))).toArray

/-- **The unoptimized twin** of `code`: the same main function, the same constants, the same function
layouts (locals, parameters, varargs, identities); every function body replaced by its raw body
followed by `RET 0`. -/
def twinOf (code : VM.Code) (raws : Nat → Bytes) : VM.Code := VM.withBodies code (twinBodies code raws)

theorem withBodies_main (c : VM.Code) (b : Nat → Array UInt8) :
    (VM.withBodies c b).main = { c.main with insts := b 0 } := rfl

theorem withBodies_getElem? (c : VM.Code) (b : Nat → Array UInt8) (k : Nat) :
    (VM.withBodies c b).consts[k]? = (c.consts[k]?).map (fun x => match x with
      | .fn f r => VM.Const.fn { f with insts := b (k + 1) } r
      | x => x) := by
  unfold VM.withBodies
  simp only [Array.getElem?_mapIdx]
  cases c.consts[k]? with
  | none => rfl
  | some x => cases x <;> rfl

theorem code_ext {c c' : VM.Code} (hm : c.main = c'.main) (hc : ∀ k : Nat, c.consts[k]? = c'.consts[k]?) :
    c = c' := by
  cases c; cases c'
  simp only at hm hc
  subst hm
  congr
  exact Array.ext_getElem? hc

/-- replacing bodies twice is replacing them once -/
theorem withBodies_withBodies (c : VM.Code) (b b' : Nat → Array UInt8) :
    VM.withBodies (VM.withBodies c b) b' = VM.withBodies c b' := by
  apply code_ext
  · rfl
  · intro k
    rw [withBodies_getElem?, withBodies_getElem?, withBodies_getElem?]
    cases c.consts[k]? with
    | none => rfl
    | some x => cases x <;> rfl

/-- replacing the bodies by themselves changes nothing -/
theorem withBodies_self (c : VM.Code) (b : Nat → Array UInt8) (h0 : b 0 = c.main.insts)
    (hb : ∀ (k : Nat) f r, c.consts[k]? = some (VM.Const.fn f r) → b (k + 1) = f.insts) :
    VM.withBodies c b = c := by
  apply code_ext
  · rw [withBodies_main, h0]
  · intro k
    rw [withBodies_getElem?]
    cases hk : c.consts[k]? with
    | none => rfl
    | some x =>
      cases x with
      | val v => rfl
      | fn f r =>
        simp only [Option.map_some]
        rw [hb k f r hk]

/-- the twin has the same main function … -/
theorem twinOf_main (code : VM.Code) (raws : Nat → Bytes) : (twinOf code raws).main = code.main := rfl

/-- … the same number of constants … -/
theorem twinOf_size (code : VM.Code) (raws : Nat → Bytes) : (twinOf code raws).consts.size = code.consts.size := by
  simp [twinOf, VM.withBodies]

/-- … and constant for constant the same value, or the same function layout and identity with the body
`raws (k + 1) ++ RET 0`. -/
theorem twinOf_const (code : VM.Code) (raws : Nat → Bytes) (k : Nat) :
    (twinOf code raws).consts[k]? = (code.consts[k]?).map (fun x => match x with
      | .fn f r => VM.Const.fn { f with insts := (twinBytes (raws (k + 1))).toArray } r
      | x => x) := by
  unfold twinOf
  rw [withBodies_getElem?]
  rfl

theorem toCodeR_fn {refs : Nat → Nat} {bc : Bytecode'} {k : Nat} {f : VM.Fn}
    (h : (toCodeR refs bc).fn (k + 1) = some f) :
    ∃ code nl np va, bc.consts[k]? = some (Compiler.Const.fn code nl np va) ∧
      f = { insts := code.toArray, numLocals := nl, numParams := np, varargs := va } := by
  unfold VM.Code.fn at h
  simp only [Nat.add_one_ne_zero, beq_iff_eq, if_false, Nat.add_sub_cancel, toCode_const] at h
  cases hk : bc.consts[k]? with
  | none => simp [hk] at h
  | some c =>
    cases c with
    | fn code nl np va =>
      simp only [hk, Option.map_some, toVMConst, Option.some.injEq] at h
      exact ⟨code, nl, np, va, rfl, h.symm⟩
    | _ => simp [hk, toVMConst] at h

/-- **unopt_twin_code.** The twin of a compiled program has the shape the universal relocation theorem
speaks about, whatever heap identities `refs` the function constants carry. -/
theorem unopt_twin_code {bc : Bytecode'} {mainIs : List Instr} {raws : Nat → Bytes}
    (h : UnoptTwin bc mainIs raws) (refs : Nat → Nat) :
    TwinCode (twinOf (toCodeR refs bc) raws) mainIs raws := by
  refine ⟨?_, h.main_ne, h.main_jumps, h.main_fall, ?_⟩
  · show decode bc.main.toArray.toList = some mainIs
    rw [List.toList_toArray]
    exact h.main_dec
  · intro idx f h0 hf
    cases idx with
    | zero => exact absurd rfl h0
    | succ k =>
      unfold twinOf at hf
      rw [VM.withBodies_fn] at hf
      cases hg : (toCodeR refs bc).fn (k + 1) with
      | none => rw [hg] at hf; cases hf
      | some g =>
        rw [hg] at hf
        simp only [Option.map_some, Option.some.injEq] at hf
        obtain ⟨code, nl, np, va, hk, _⟩ := toCodeR_fn hg
        obtain ⟨⟨is, hd, hw⟩, hlen, _⟩ := h.fns k code nl np va hk
        refine ⟨?_, is, hd, hw, hlen⟩
        rw [← hf]
        rfl

/-- **unopt_twin_optimized.** The compiled program IS the twin with every function body replaced by
what the optimizer model makes of the raw body. -/
theorem unopt_twin_optimized {bc : Bytecode'} {mainIs : List Instr} {raws : Nat → Bytes}
    (h : UnoptTwin bc mainIs raws) (refs : Nat → Nat) :
    VM.withBodies (twinOf (toCodeR refs bc) raws) (optBodies (twinOf (toCodeR refs bc) raws) raws) =
      toCodeR refs bc := by
  unfold twinOf
  rw [withBodies_withBodies]
  apply withBodies_self
  · rfl
  · intro k f r hk
    rw [toCode_const] at hk
    cases hc : bc.consts[k]? with
    | none => simp [hc] at hk
    | some c =>
      cases c with
      | fn code nl np va =>
        simp only [hc, Option.map_some, toVMConst, Option.some.injEq, VM.Const.fn.injEq] at hk
        obtain ⟨_, _, h3⟩ := h.fns k code nl np va hc
        show optBody (raws (k + 1)) = f.insts
        rw [h3, ← hk.1]
      | _ => simp [hc, toVMConst] at hk

/-! ## 4. The program as the VM model runs it -/

theorem setRef_toVMConst (r : Nat) (c : Compiler.Const) : setRef r (toVMConst 0 c) = toVMConst r c := by
  cases c <;> rfl

/-- `VM.initFobjs` only re-labels the function constants of a compiled program. -/
theorem initFobjs_toCode (bc : Bytecode') : ∃ refs : Nat → Nat, (VM.initFobjs (toCode bc)).1 = toCodeR refs bc := by
  obtain ⟨hm, refs, hrefs⟩ := initFobjs_code (toCode bc)
  refine ⟨refs, code_ext hm (fun k => ?_)⟩
  rw [hrefs k, toCode_const]
  unfold toCode
  rw [toCode_const]
  cases bc.consts[k]? with
  | none => rfl
  | some c => simp only [Option.map_some, setRef_toVMConst]

/-- the bodies `optBodies` computes are outputs of the optimizer model (what `optimized_run` asks of them) -/
theorem optBodies_are_opt {code : VM.Code} {mainIs : List Instr} {raws : Nat → Bytes}
    (h : TwinCode code mainIs raws) :
    ∀ idx f, idx ≠ 0 → code.fn idx = some f →
      ∃ sm rp r, opt (raws idx) sm rp = .ok r ∧ optBodies code raws idx = r.bytes.toArray := by
  intro idx f h0 hf
  obtain ⟨_, is, hd, hw, _⟩ := h.fns idx f h0 hf
  obtain ⟨r, hr⟩ := Tengo.Props.C03Sim.opt_total is (raws idx).length [] 0 hw
  have hr' : opt (raws idx) [] 0 = .ok r := by simp [opt, hd, hr]
  refine ⟨[], 0, r, hr', ?_⟩
  cases idx with
  | zero => exact absurd rfl h0
  | succ k => exact optBody_eq hr'

end Tengo.Proofs.C03Source

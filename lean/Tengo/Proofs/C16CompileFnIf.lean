import Tengo.Proofs.C02CompileInd
import Tengo.Proofs.C16CompileFnLive
/-!
C16 / `tail_pattern_sound`, layer 3c: the code of an `if` statement (with or without `else`, with or without an
init statement, whatever its blocks contain) has a jump to its own END: the `JMPF` patched by
`changeOperand(jumpPos1, curPos)` when there is no `else`, the `JMP` over the else branch otherwise. So the
instruction after an `if` is a jump destination for `optimizeFunc` and is never removed as dead code — also after
`if c { return 1 } else { return 2 }`.

`SResJ` is C02's `SRes` with that extra fact; the proofs are those of `sspec_ifs` (`C02CompileStmt.lean`).
-/
set_option linter.unusedVariables false
set_option linter.unusedSimpArgs false
namespace Tengo.Proofs.C16Fn
open Tengo.Model Tengo.Model.Opcodes Tengo.Model.Compiler Tengo.Model.Optimizer Tengo.Model.Verifier
open Tengo.Model.Spec (Expr Stmt)
open Tengo.Proofs.C03 Tengo.Proofs.C03Reloc Tengo.Proofs.C02Compile

/-- statement result whose block contains a jump to its own end -/
def SResJ (s s' : CState) (L : List Instr) (F : List Nat) (n : Nat) : Prop :=
  ∃ B F' bs cs, SOut s s' L F n B F' bs cs ∧
    ∃ j ∈ B, isJump j.op = true ∧ j.args.head? = some (totalSize L + totalSize B)

theorem SResJ.bind {s s₁ s₂ : CState} {L : List Instr} {F : List Nat} {n₁ n₂ : Nat}
    (h1 : SRes s s₁ L F n₁) (h2 : ∀ L₁ F₁, Inv s₁ L₁ F₁ → SResJ s₁ s₂ L₁ F₁ n₂) :
    SResJ s s₂ L F (n₁ + n₂) := by
  obtain ⟨B₁, F₁, bs₁, cs₁, o1⟩ := h1
  obtain ⟨B₂, F₂, bs₂, cs₂, o2, j, hj, hjj, hjt⟩ := h2 _ _ o1.inv
  refine ⟨B₁ ++ B₂, F₂, bs₁ ++ bs₂, cs₁ ++ cs₂, ⟨by rw [← List.append_assoc]; exact o2.inv,
    o1.step.trans o2.step, ?_, ?_, by rw [totalSize_append]; have := o1.size; have := o2.size; omega, ?_⟩,
    j, List.mem_append_right _ hj, hjj, ?_⟩
  · rw [o2.loops, o1.loops, addPend_addPend]
  · intro hnil
    obtain ⟨e1, e2⟩ := o1.nopend hnil
    subst e1; subst e2
    obtain ⟨e3, e4⟩ := o2.nopend (by rw [o1.loops]; exact addPend_eq_nil hnil)
    subst e3; subst e4
    exact ⟨rfl, rfl⟩
  · have e1 : totalSize (L ++ B₁) = totalSize L + totalSize B₁ := totalSize_append _ _
    have hb2 := o2.blk
    rw [e1] at hb2
    have h := o1.blk.append hb2
    rw [totalSize_append]
    have e2 : totalSize L + (totalSize B₁ + totalSize B₂) = totalSize L + totalSize B₁ + totalSize B₂ := by omega
    rw [e2]; exact h
  · rw [hjt]
    simp only [totalSize_append]
    congr 1; omega

theorem SResJ.forked {s s₁ : CState} {L : List Instr} {F : List Nat} {n : Nat} (hinv : Inv s L F)
    (h : SResJ (forkS true s) s₁ L F n) : SResJ s (unforkS s₁) L F n := by
  obtain ⟨B, F', bs, cs, ho, hj⟩ := h
  obtain ⟨hst, t, ps, ht, hb, hne⟩ := Step.unfork ho.step
  exact ⟨B, F', bs, cs, ⟨ho.inv.unfork ht hb (by rw [hne]; exact hinv.wfc.ne_nil), hst, ho.loops, ho.nopend,
    ho.size, ho.blk⟩, hj⟩

theorem ifcore_noneJ {d : Nat} (ih : All d) (c : Expr) (body : List Stmt) (s s' : CState) (L : List Instr)
    (F : List Nat)
    (h : (do compileExpr d c; let jp ← emit opJumpFalsy [0]; compileBlock d body; ifTail d jp none) s
      = .ok ((), s'))
    (hinv : Inv s L F) (hszc : szE d c < 2 ^ 30) (hszb : szBlock d body < 2 ^ 30) :
    SResJ s s' L F (szE d c + 5 + szBlock d body + 5 + 0) := by
  have hjf : isJump opJumpFalsy = true := rfl
  obtain ⟨_, s1, h1, hA⟩ := bind_ok h
  obtain ⟨jp, s2, h2, hB⟩ := bind_ok hA
  obtain ⟨_, s3, h3, hC⟩ := bind_ok hB
  unfold ifTail at hC
  obtain ⟨p, s3', h4, hD⟩ := bind_ok hC
  clear h hA hB hC
  obtain ⟨Bc, F₁, o1, hb1⟩ := ih.e c s s1 L F h1 hinv hszc
  have e2 := emit_ok h2
  have ejp : jp = s1.insts.size := (Prod.mk.inj e2).1
  have es2 : s2 = emitS opJumpFalsy [0] s1 := (Prod.mk.inj e2).2
  subst es2
  have inv2 := o1.inv.emit (op := opJumpFalsy) (args := [0]) (jump_shape hjf) (opReq_jump hjf)
  obtain ⟨Bd, F₂, bs, cs, o2⟩ := ih.b body _ s3 _ F₁ h3 inv2 hszb
  have e4 := curPos_ok h4
  have ep : p = s3.insts.size := (Prod.mk.inj e4).1
  have es3' : s3' = s3 := (Prod.mk.inj e4).2
  rw [es3', ep] at hD
  clear e4 ep es3' h4
  have e5 := changeOperand_ok hD
  have es' : s' = chgS jp s3.insts.size s3 := (Prod.mk.inj e5).2
  subst es'
  have hsz1 : s1.insts.size = totalSize L + totalSize Bc := by rw [o1.inv.em.size, totalSize_append]
  have hjp : jp = totalSize L + totalSize Bc := by rw [ejp, hsz1]
  subst hjp
  have hL : totalSize (L ++ Bc) = totalSize L + totalSize Bc := totalSize_append _ _
  rw [hL] at inv2 o2
  have hsz3 : s3.insts.size = totalSize L + totalSize Bc + 5 + totalSize Bd := by
    rw [o2.inv.em.size]; simp only [totalSize_append, totalSize_cons, totalSize_nil, jump_size hjf] <;> omega
  have hinv3 : Inv s3 ((L ++ Bc) ++ ⟨totalSize L + totalSize Bc, opJumpFalsy, [0]⟩ :: Bd) F₂ := by
    have := o2.inv; simpa using this
  have hinv' := hinv3.patch (t := s3.insts.size) hjf
  have hf := chgS_frame (totalSize L + totalSize Bc) s3.insts.size s3
  refine ⟨Bc ++ ⟨totalSize L + totalSize Bc, opJumpFalsy, [s3.insts.size]⟩ :: Bd, F₂, bs, cs,
    ⟨by simpa using hinv', ?_, ?_, ?_, ?_, ?_⟩, ?_⟩
  · exact (o1.step.trans ((Step.of_eq (s := s1) (s' := emitS opJumpFalsy [0] s1) F₁ rfl rfl rfl).trans o2.step)).trans
      (Step.of_eq F₂ hf.2.2.1 hf.2.1 hf.1)
  · rw [hf.2.2.2, o2.loops]
    show addPend s1.loops bs cs = _
    rw [o1.loops]
  · intro hn
    exact o2.nopend (by show s1.loops = []; rw [o1.loops]; exact hn)
  · simp only [totalSize_append, totalSize_cons, jump_size hjf]
    have := o1.size; have := o2.size; omega
  · have hbd : SBlk (totalSize L + totalSize Bc + 5) s3.insts.size Bd bs cs :=
      o2.blk.cast (by simp only [totalSize_append, totalSize_cons, totalSize_nil, jump_size hjf])
        (by rw [hsz3]; simp only [totalSize_append, totalSize_cons, totalSize_nil, jump_size hjf])
    exact (SBlk.if1 (hb1 0) hbd).cast rfl (by
      rw [hsz3]; simp only [totalSize_append, totalSize_cons, jump_size hjf] <;> omega)
  · refine ⟨⟨totalSize L + totalSize Bc, opJumpFalsy, [s3.insts.size]⟩, by simp, rfl, ?_⟩
    rw [hsz3]
    simp only [totalSize_append, totalSize_cons, jump_size hjf, List.head?_cons]
    congr 1; omega

theorem ifcore_someJ {d : Nat} (ih : All d) (c : Expr) (body : List Stmt) (st : Stmt) (s s' : CState)
    (L : List Instr) (F : List Nat)
    (h : (do compileExpr d c; let jp ← emit opJumpFalsy [0]; compileBlock d body; ifTail d jp (some st)) s
      = .ok ((), s'))
    (hinv : Inv s L F) (hszc : szE d c < 2 ^ 30) (hszb : szBlock d body < 2 ^ 30) (hsze : szS d st < 2 ^ 30) :
    SResJ s s' L F (szE d c + 5 + szBlock d body + 5 + szS d st) := by
  have hjf : isJump opJumpFalsy = true := rfl
  have hjj : isJump opJump = true := rfl
  obtain ⟨_, s1, h1, hA⟩ := bind_ok h
  obtain ⟨jp1, s2, h2, hB⟩ := bind_ok hA
  obtain ⟨_, s3, h3, hC⟩ := bind_ok hB
  unfold ifTail at hC
  obtain ⟨jp2, s4, h4, hD⟩ := bind_ok hC
  obtain ⟨p1, s4', h5, hE⟩ := bind_ok hD
  obtain ⟨_, s5, h6, hF⟩ := bind_ok hE
  obtain ⟨_, s6, h7, hG⟩ := bind_ok hF
  obtain ⟨p2, s6', h8, hH⟩ := bind_ok hG
  clear h hA hB hC hD hE hF hG
  -- condition
  obtain ⟨Bc, F₁, o1, hb1⟩ := ih.e c s s1 L F h1 hinv hszc
  have e2 := emit_ok h2
  have ejp1 : jp1 = s1.insts.size := (Prod.mk.inj e2).1
  have es2 : s2 = emitS opJumpFalsy [0] s1 := (Prod.mk.inj e2).2
  subst es2
  have inv2 := o1.inv.emit (op := opJumpFalsy) (args := [0]) (jump_shape hjf) (opReq_jump hjf)
  -- body
  obtain ⟨Bd, F₂, bs₁, cs₁, o2⟩ := ih.b body _ s3 _ F₁ h3 inv2 hszb
  have e4 := emit_ok h4
  have ejp2 : jp2 = s3.insts.size := (Prod.mk.inj e4).1
  have es4 : s4 = emitS opJump [0] s3 := (Prod.mk.inj e4).2
  subst es4
  have inv4 := o2.inv.emit (op := opJump) (args := [0]) (jump_shape hjj) (opReq_jump hjj)
  -- first patch
  have e5 := curPos_ok h5
  have ep1 : p1 = (emitS opJump [0] s3).insts.size := (Prod.mk.inj e5).1
  have es4' : s4' = emitS opJump [0] s3 := (Prod.mk.inj e5).2
  rw [es4', ep1] at h6
  clear e5 ep1 es4' h5
  have e6 := changeOperand_ok h6
  have es5 : s5 = chgS jp1 (emitS opJump [0] s3).insts.size (emitS opJump [0] s3) := (Prod.mk.inj e6).2
  subst es5
  -- sizes
  have hsz1 : s1.insts.size = totalSize L + totalSize Bc := by rw [o1.inv.em.size, totalSize_append]
  have hL1 : totalSize (L ++ Bc) = totalSize L + totalSize Bc := totalSize_append _ _
  rw [hL1] at inv2 o2 inv4
  have hsz3 : s3.insts.size = totalSize L + totalSize Bc + 5 + totalSize Bd := by
    rw [o2.inv.em.size]; simp only [totalSize_append, totalSize_cons, totalSize_nil, jump_size hjf] <;> omega
  have hL3 : totalSize (L ++ Bc ++ [⟨totalSize L + totalSize Bc, opJumpFalsy, [0]⟩] ++ Bd) =
      totalSize L + totalSize Bc + 5 + totalSize Bd := by
    simp only [totalSize_append, totalSize_cons, totalSize_nil, jump_size hjf] <;> omega
  rw [hL3] at inv4
  have hsz4 : (emitS opJump [0] s3).insts.size = totalSize L + totalSize Bc + 5 + totalSize Bd + 5 := by
    rw [inv4.em.size]; simp only [totalSize_append, totalSize_cons, totalSize_nil, jump_size hjf, jump_size hjj] <;> omega
  have hinv4' : Inv (emitS opJump [0] s3) ((L ++ Bc) ++ ⟨totalSize L + totalSize Bc, opJumpFalsy, [0]⟩ ::
      (Bd ++ [⟨totalSize L + totalSize Bc + 5 + totalSize Bd, opJump, [0]⟩])) F₂ := by
    have := inv4; simpa using this
  have hinv5 := hinv4'.patch (t := (emitS opJump [0] s3).insts.size) hjf
  have hjp1 : jp1 = totalSize L + totalSize Bc := by rw [ejp1, hsz1]
  subst hjp1
  have hjp2 : jp2 = totalSize L + totalSize Bc + 5 + totalSize Bd := by rw [ejp2, hsz3]
  subst hjp2
  -- else branch
  obtain ⟨Be, F₃, bs₂, cs₂, o3⟩ := ih.s st _ s6 _ F₂ h7 hinv5 hsze
  have e8 := curPos_ok h8
  have ep2 : p2 = s6.insts.size := (Prod.mk.inj e8).1
  have es6' : s6' = s6 := (Prod.mk.inj e8).2
  rw [es6', ep2] at hH
  clear e8 ep2 es6' h8
  have e9 := changeOperand_ok hH
  have es' : s' = chgS (totalSize L + totalSize Bc + 5 + totalSize Bd) s6.insts.size s6 := (Prod.mk.inj e9).2
  subst es'
  have hinv6 : Inv s6 ((L ++ Bc ++ ⟨totalSize L + totalSize Bc, opJumpFalsy, [(emitS opJump [0] s3).insts.size]⟩ :: Bd) ++
      ⟨totalSize L + totalSize Bc + 5 + totalSize Bd, opJump, [0]⟩ :: Be) F₃ := by
    have := o3.inv; simpa using this
  have hinv7 := hinv6.patch (t := s6.insts.size) hjj
  have hsz6 : s6.insts.size = totalSize L + totalSize Bc + 5 + totalSize Bd + 5 + totalSize Be := by
    rw [o3.inv.em.size]
    simp only [totalSize_append, totalSize_cons, totalSize_nil, jump_size hjf, jump_size hjj] <;> omega
  have hf5 := chgS_frame (totalSize L + totalSize Bc) (emitS opJump [0] s3).insts.size (emitS opJump [0] s3)
  have hf7 := chgS_frame (totalSize L + totalSize Bc + 5 + totalSize Bd) s6.insts.size s6
  refine ⟨Bc ++ ⟨totalSize L + totalSize Bc, opJumpFalsy, [totalSize L + totalSize Bc + 5 + totalSize Bd + 5]⟩ ::
      (Bd ++ ⟨totalSize L + totalSize Bc + 5 + totalSize Bd, opJump, [s6.insts.size]⟩ :: Be), F₃,
    bs₁ ++ bs₂, cs₁ ++ cs₂, ⟨?_, ?_, ?_, ?_, ?_, ?_⟩, ?_⟩
  · rw [hsz4] at hinv7; simpa using hinv7
  · have st2 : Step s1 (emitS opJumpFalsy [0] s1) F₁ F₁ := Step.of_eq F₁ rfl rfl rfl
    have st4 : Step s3 (emitS opJump [0] s3) F₂ F₂ := Step.of_eq F₂ rfl rfl rfl
    have st5 : Step (emitS opJump [0] s3)
        (chgS (totalSize L + totalSize Bc) (emitS opJump [0] s3).insts.size (emitS opJump [0] s3)) F₂ F₂ :=
      Step.of_eq F₂ hf5.2.2.1 hf5.2.1 hf5.1
    have st7 : Step s6 (chgS (totalSize L + totalSize Bc + 5 + totalSize Bd) s6.insts.size s6) F₃ F₃ :=
      Step.of_eq F₃ hf7.2.2.1 hf7.2.1 hf7.1
    exact (((((o1.step.trans st2).trans o2.step).trans st4).trans st5).trans o3.step).trans st7
  · rw [hf7.2.2.2, o3.loops, hf5.2.2.2]
    show addPend s3.loops bs₂ cs₂ = _
    rw [o2.loops]
    show addPend (addPend s1.loops bs₁ cs₁) bs₂ cs₂ = _
    rw [o1.loops, addPend_addPend]
  · intro hn
    have h1' : s1.loops = [] := by rw [o1.loops]; exact hn
    obtain ⟨e1, e2'⟩ := o2.nopend h1'
    subst e1; subst e2'
    have h3' : s3.loops = [] := by rw [o2.loops]; exact addPend_eq_nil h1'
    obtain ⟨e3, e4'⟩ := o3.nopend (by rw [hf5.2.2.2]; exact h3')
    subst e3; subst e4'
    exact ⟨rfl, rfl⟩
  · simp only [totalSize_append, totalSize_cons, jump_size hjf, jump_size hjj]
    have := o1.size; have := o2.size; have := o3.size; omega
  · have hbd : SBlk (totalSize L + totalSize Bc + 5) (totalSize L + totalSize Bc + 5 + totalSize Bd) Bd bs₁ cs₁ :=
      o2.blk.cast (by simp only [totalSize_append, totalSize_cons, totalSize_nil, jump_size hjf])
        (by simp only [totalSize_append, totalSize_cons, totalSize_nil, jump_size hjf])
    have hbe : SBlk (totalSize L + totalSize Bc + 5 + totalSize Bd + 5) s6.insts.size Be bs₂ cs₂ :=
      o3.blk.cast (by
        simp only [totalSize_append, totalSize_cons, totalSize_nil, jump_size hjf, jump_size hjj] <;> omega)
        (by rw [hsz6]; simp only [totalSize_append, totalSize_cons, totalSize_nil, jump_size hjf, jump_size hjj] <;> omega)
    exact (SBlk.ifelse (hb1 0) hbd hbe).cast rfl (by
      rw [hsz6]; simp only [totalSize_append, totalSize_cons, jump_size hjf, jump_size hjj] <;> omega)
  · refine ⟨⟨totalSize L + totalSize Bc + 5 + totalSize Bd, opJump, [s6.insts.size]⟩, by simp, rfl, ?_⟩
    rw [hsz6]
    simp only [totalSize_append, totalSize_cons, jump_size hjf, jump_size hjj, List.head?_cons]
    congr 1; omega

theorem sspec_ifsJ {d : Nat} (ih : All d) (ini : Option Stmt) (c : Expr) (body : List Stmt) (els : Option Stmt)
    (s s' : CState) (L : List Instr) (F : List Nat)
    (h : compileStmt (d + 1) (.ifs ini c body els) s = .ok ((), s')) (hinv : Inv s L F)
    (hsz : szS (d + 1) (.ifs ini c body els) < 2 ^ 30) : SResJ s s' L F (szS (d + 1) (.ifs ini c body els)) := by
  rw [compile_ifs] at h
  rw [szS_ifs] at hsz ⊢
  obtain ⟨_, s0, h0, hA⟩ := bind_ok h
  have e0 : s0 = forkS true s := by
    rw [fork_run] at h0; injection h0 with h0; exact (Prod.mk.inj h0).2.symm
  subst e0
  obtain ⟨_, s1, h1, hB⟩ := bind_ok hA
  -- everything up to `unfork` as one action
  have hB' : ((do compileExpr d c; let jp ← emit opJumpFalsy [0]; compileBlock d body; ifTail d jp els) >>=
      fun _ => unfork) s1 = .ok ((), s') := by
    simpa [bind_assoc] using hB
  obtain ⟨_, s2, h2, hC⟩ := bind_ok hB'
  have e2 : s' = unforkS s2 := by
    rw [unfork_run] at hC; injection hC with hC; exact (Prod.mk.inj hC).2.symm
  subst e2
  refine SResJ.forked hinv ?_
  have r1 := sres_optS ih ini h1 hinv.fork (by omega)
  have hass : szOS d ini + szE d c + 5 + szBlock d body + 5 + szOS d els =
      szOS d ini + (szE d c + 5 + szBlock d body + 5 + szOS d els) := by omega
  rw [hass]
  refine SResJ.bind r1 (fun L₁ F₁ hinv1 => ?_)
  cases els with
  | none => exact ifcore_noneJ ih c body s1 s2 L₁ F₁ h2 hinv1 (by omega) (by omega)
  | some st => exact ifcore_someJ ih c body st s1 s2 L₁ F₁ h2 hinv1 (by omega) (by omega) (by simp [szOS] at hsz; omega)
end Tengo.Proofs.C16Fn

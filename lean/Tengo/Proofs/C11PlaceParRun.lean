import Tengo.Proofs.C11PlaceMain
/-!
C11, PLACEMENT global ↦ PARAMETER on fragment F3: the variant of `progL` that hands the variables to the function as
arguments instead of defining them by a `:=` prologue:

  `f = func(x_0, …, x_{n-1}) { body[x_i local]; r_0 = x_0; …; r_{n-1} = x_{n-1} };  f(r_0, …, r_{n-1})`

* `argsFrom` / `parBody` / `parDef` / `progP`: the program.
* `evalEs_argsFrom`, `bindArgs_valsFrom`: the arguments evaluate to the first `n` globals, which become the locals `mkL`.
* `exec_progP`: the main program in terms of the function body; `parBody_run`: the function body in terms of the
  ORIGINAL statements on the globals.
* `placementP_forward` / `placementP_progress` / `placementP_backward`: as for `progL` (C11PlaceMain).
-/
set_option linter.unusedVariables false
set_option linter.unusedSimpArgs false
namespace Tengo.Proofs.C11Place
open Tengo.Model Tengo.Model.F3
open Tengo.Model.F0 (Sem upd)
variable {V : Type}

/-- `r_j, …, r_{j+c-1}` -/
def argsFrom : Nat → Nat → Exs
  | _, 0 => .nil
  | j, c + 1 => .cons (.glob j) (argsFrom (j + 1) c)

def parBody (n : Nat) (body : Stms) : Stms := app (renSs body) (epiFrom 0 n)

def parDef (n : Nat) (body : Stms) : FnDef := { nparams := n, nlocals := n, body := parBody n body }

/-- The variables are parameters of a function stored in global slot `n` and called at once with the globals. -/
def progP (n L : Nat) (body : Stms) : Prog :=
  { fns := fun k => if k = L then some (parDef n body) else none,
    main := .cons (.assign n (.lit L)) (.cons (.expr (.call (.glob n) (argsFrom 0 n))) .nil) }

/-- `[g j, …, g (j+c-1)]` -/
def valsFrom (g : Nat → V) : Nat → Nat → List V
  | _, 0 => []
  | j, c + 1 => g j :: valsFrom g (j + 1) c

theorem valsFrom_length (g : Nat → V) : ∀ (c j : Nat), (valsFrom g j c).length = c
  | 0, _ => rfl
  | c + 1, j => by simp only [valsFrom, List.length_cons, valsFrom_length g c (j + 1)]

theorem valsFrom_get (g : Nat → V) : ∀ (c j i : Nat), (valsFrom g j c)[i]? = if i < c then some (g (j + i)) else none
  | 0, j, i => by simp [valsFrom]
  | c + 1, j, 0 => by simp [valsFrom]
  | c + 1, j, i + 1 => by
    simp only [valsFrom, List.getElem?_cons_succ, valsFrom_get g c (j + 1) i, Nat.add_lt_add_iff_right]
    have : j + 1 + i = j + (i + 1) := by omega
    rw [this]

theorem bindArgs_valsFrom (g : Nat → V) (n : Nat) : bindArgs (valsFrom g 0 n) = mkL n g (fun _ => none) := by
  funext i
  simp only [bindArgs, mkL, valsFrom_get g n 0 i, Nat.zero_add]

section
variable {E : Env V}

theorem evalEs_argsFrom (P : Prog) (g : Nat → V) (l : Locals V) : ∀ (c j f : Nat), c + 1 ≤ f →
    evalEs E P f (argsFrom j c) g l = .vals (valsFrom g j c) g
  | 0, j, f, h => by
    obtain ⟨f', rfl⟩ : ∃ f', f = f' + 1 := ⟨f - 1, by omega⟩
    simp only [argsFrom, evalEs, valsFrom]
  | c + 1, j, f, h => by
    obtain ⟨f', rfl⟩ : ∃ f', f = f' + 2 := ⟨f - 2, by omega⟩
    simp only [argsFrom, evalEs, evalE, valsFrom]
    rw [evalEs_argsFrom P g l c (j + 1) (f' + 1) (by omega)]

/-- The main program of `progP` with fuel `F + 5`, `F ≥ n`, in terms of the function body with fuel `F`. -/
theorem exec_progP (n L : Nat) (body : Stms) (hfn : E.asFn (E.cs L) = some L) (F : Nat) (hF : n ≤ F) (g : Nat → V) :
    exec E (progP n L body) (F + 5) g =
      tCall (execSs E (progP n L body) F (parBody n body) (upd g n (E.cs L)) (mkL n g (fun _ => none))) := by
  have hgn : upd g n (E.cs L) n = E.cs L := by simp only [upd, if_true]
  have hfns : (progP n L body).fns L = some (parDef n body) := by simp only [progP, if_true]
  have hmain : (progP n L body).main =
      .cons (.assign n (.lit L)) (.cons (.expr (.call (.glob n) (argsFrom 0 n))) .nil) := rfl
  have hargs := evalEs_argsFrom (E := E) (progP n L body) (upd g n (E.cs L)) (fun _ => none) n 0 (F + 1) (by omega)
  have hl : mkL n (upd g n (E.cs L)) (fun _ => none) = mkL n g (fun _ => none) :=
    mkL_congr (fun _ => none) (fun i hi => by simp only [upd, Nat.ne_of_lt hi, if_false])
  simp only [exec, hmain, execSs, execS, evalE, hargs, callFn, hgn, hfn, hfns, parDef, valsFrom_length, ne_eq,
    not_true_eq_false, if_false, bindArgs_valsFrom, hl]
  cases execSs E (progP n L body) F (parBody n body) (upd g n (E.cs L)) (mkL n g (fun _ => none)) <;>
    simp only [tCall, ERes.toRes]

/-- What the original's statement result becomes at the end of the function body. -/
theorem parBody_run (P PG : Prog) (n : Nat) (body : Stms) (hc : g2Ss n body = true) (F : Nat)
    (g gL : Nat → V) (lG : Locals V) :
    execSs E P F (parBody n body) gL (mkL n g (fun _ => none)) =
      match tS n gL (fun _ => none) (execSs E PG F body g lG) with
      | .done g1 l1 => execSs E P (F - len (renSs body)) (epiFrom 0 n) g1 l1
      | r => r := by
  unfold parBody
  rw [execSs_app, (sim_all E n PG P F).ss body g lG gL (fun _ => none) hc]
  rfl

/-- The moved program with fuel `F + 5`, `F ≥ n`, in terms of the original's statements with fuel `F`. -/
theorem progP_at (n L : Nat) (body : Stms) (hc : g2Ss n body = true) (hfn : E.asFn (E.cs L) = some L)
    (F : Nat) (hF : n ≤ F) (g : Nat → V) :
    exec E (progP n L body) (F + 5) g =
      tCall (match tS n (upd g n (E.cs L)) (fun _ => none)
          (execSs E (progG body) F body g (fun _ => none)) with
        | .done g1 l1 => execSs E (progP n L body) (F - len (renSs body)) (epiFrom 0 n) g1 l1
        | r => r) := by
  rw [exec_progP n L body hfn F hF g,
    parBody_run (progP n L body) (progG body) n body hc F g (upd g n (E.cs L)) (fun _ => none)]

/-- **Forward**: an answer of the original is an answer of the program with the variables as parameters. -/
theorem placementP_forward (n L : Nat) (body : Stms) (hc : g2Ss n body = true) (hfn : E.asFn (E.cs L) = some L)
    (f : Nat) (g : Nat → V) (r : PRes V) (hr : exec E (progG body) f g = r) (hne : r ≠ .out) :
    ∃ F, exec E (progP n L body) F g = tP n (upd g n (E.cs L)) r := by
  refine ⟨f + (len (renSs body) + (n + 2)) + 5, ?_⟩
  rw [progP_at n L body hc hfn _ (by omega) g]
  have hfe : f + (len (renSs body) + (n + 2)) - len (renSs body) = f + (n + 2) := by omega
  rw [hfe]
  rw [exec_progG] at hr
  have hmono := fun r0 (h0 : execSs E (progG body) f body g (fun _ => none) = r0) (hn0 : r0 ≠ .out) =>
    execSs_mono E (progG body) (Nat.le_add_right f (len (renSs body) + (n + 2))) h0 hn0
  cases h0 : execSs E (progG body) f body g (fun _ => none) with
  | done g' lx =>
    rw [hmono _ h0 (by simp)]
    rw [h0] at hr
    subst hr
    simp only [tS]
    have he := run_epi (E := E) (progP n L body) n (upd g n (E.cs L)) g' (fun _ => none) n 0 (f + (n + 2))
      (by omega) (by omega)
    rw [mkG_zero, Nat.zero_add] at he
    rw [he]
    simp only [tCall, tP]
  | brk g' lx => rw [hmono _ h0 (by simp)]; rw [h0] at hr; subst hr; simp only [tS, tCall, tP]
  | cont g' lx => rw [hmono _ h0 (by simp)]; rw [h0] at hr; subst hr; simp only [tS, tCall, tP]
  | ret v g' => rw [hmono _ h0 (by simp)]; rw [h0] at hr; subst hr; simp only [tS, tCall, tP]
  | err => rw [hmono _ h0 (by simp)]; rw [h0] at hr; subst hr; simp only [tS, tCall, tP]
  | bad => rw [hmono _ h0 (by simp)]; rw [h0] at hr; subst hr; simp only [tS, tCall, tP]
  | out => rw [h0] at hr; subst hr; exact absurd rfl hne

/-- **Progress**: if the program with the variables as parameters answers (is not out of fuel), the original answers
with some fuel. -/
theorem placementP_progress (n L : Nat) (body : Stms) (hc : g2Ss n body = true) (hfn : E.asFn (E.cs L) = some L)
    (F : Nat) (g : Nat → V) (hne : exec E (progP n L body) F g ≠ .out) :
    ∃ f, exec E (progG body) f g ≠ .out := by
  refine ⟨F + n, ?_⟩
  have h1 := exec_mono E (progP n L body) (show F ≤ F + n + 5 by omega) rfl hne
  rw [progP_at n L body hc hfn _ (by omega) g] at h1
  rw [exec_progG]
  intro ho
  cases h0 : execSs E (progG body) (F + n) body g (fun _ => none) with
  | out =>
    rw [h0] at h1
    simp only [tS, tCall] at h1
    exact hne h1.symm
  | done g' lx => rw [h0] at ho; cases ho
  | brk g' lx => rw [h0] at ho; cases ho
  | cont g' lx => rw [h0] at ho; cases ho
  | ret v g' => rw [h0] at ho; cases ho
  | err => rw [h0] at ho; cases ho
  | bad => rw [h0] at ho; cases ho

/-- **Backward**: an answer of the program with the variables as parameters is `tP` of an answer of the original. -/
theorem placementP_backward (n L : Nat) (body : Stms) (hc : g2Ss n body = true) (hfn : E.asFn (E.cs L) = some L)
    (F : Nat) (g : Nat → V) (r' : PRes V) (hr : exec E (progP n L body) F g = r') (hne : r' ≠ .out) :
    ∃ f r, exec E (progG body) f g = r ∧ r ≠ .out ∧ r' = tP n (upd g n (E.cs L)) r := by
  obtain ⟨f, hf⟩ := placementP_progress n L body hc hfn F g (by rw [hr]; exact hne)
  refine ⟨f, _, rfl, hf, ?_⟩
  obtain ⟨F', hF'⟩ := placementP_forward n L body hc hfn f g _ rfl hf
  have hne' : tP n (upd g n (E.cs L)) (exec E (progG body) f g) ≠ .out := by
    cases h : exec E (progG body) f g with
    | out => exact absurd h hf
    | done g' => simp [tP]
    | err => simp [tP]
    | bad => simp [tP]
  have a := exec_mono E (progP n L body) (Nat.le_max_left F F') hr hne
  have b := exec_mono E (progP n L body) (Nat.le_max_right F F') hF' hne'
  rw [← a, b]

end
end Tengo.Proofs.C11Place

import Tengo.Proofs.C16CompileFnBody
import Tengo.Proofs.C02CompileFit
/-!
C16 / `tail_pattern_sound`, layer 3e: the function literal.

`func_tail`: for `func(ps) { pre…; last }` where every statement of `pre` passes (`passes`) and the code of `last`
has the shape `TailEnd` (`P ++ N ++ [CALL n sp, z]`), the function constant added by `compileExpr` is the
optimizer's output `res` for a raw body `Lb` that decodes to itself, contains that CALL `x` directly followed by
`z`, `z` ends the raw body, and `x` is LIVE: `newPos Lb x.pos = some m`.
-/
set_option linter.unusedVariables false
set_option linter.unusedSimpArgs false
namespace Tengo.Proofs.C16Fn
open Tengo.Model Tengo.Model.Opcodes Tengo.Model.Compiler Tengo.Model.Optimizer Tengo.Model.Verifier
open Tengo.Model.Spec (Expr Stmt)
open Tengo.Proofs.C03 Tengo.Proofs.C03Reloc Tengo.Proofs.C02Compile Tengo.Proofs.C16Compile
open Tengo.Props.C03Sim

theorem call_ne_ret : opCall ≠ opReturn := by decide

/-- what `func_tail` exposes about the function constant `k` of the state `s'` -/
def FnTail (s' : CState) (lo k np : Nat) (va : Bool) (n sp zop : Nat) (zargs : List Nat) : Prop :=
  ∃ (res : Optimizer.Result) (nl : Nat) (Lb : List Instr) (x z : Instr) (m : Nat),
    lo ≤ k ∧ s'.consts.toList[k]? = some (Const.fn res.bytes nl np va) ∧
    decode (encode Lb) = some Lb ∧ (encode Lb).length < 2 ^ 32 ∧ Optimizer.opt (encode Lb) [] 0 = .ok res ∧
    x ∈ Lb ∧ z ∈ Lb ∧ x.op = opCall ∧ x.args = [n, sp] ∧ z.pos = x.pos + x.size ∧ z.op = zop ∧ z.args = zargs ∧
    (zop ≠ opReturn → z.pos + z.size = (encode Lb).length) ∧ newPos Lb x.pos = some m

theorem func_tail {d : Nat} (va : Bool) (ps : List String) (pre : List Stmt) (last : Stmt) (post : List Stmt)
    {n sp zop : Nat} {zargs : List Nat} (hpost : post = [] ∨ zop = opReturn)
    (hpre : ∀ st ∈ pre, passes st = true)
    (hlast : ∀ d' s1 s1' L1 F1, compileStmt (d' + 1) last s1 = .ok ((), s1') → Inv s1 L1 F1 →
      szS (d' + 1) last < 2 ^ 30 → s1.loops = [] → TailEnd s1 s1' L1 F1 n sp zop zargs)
    (s s' : CState) (L : List Instr) (F : List Nat)
    (h : compileExpr (d + 1) (.func va ps (pre ++ last :: post)) s = .ok ((), s')) (hinv : Inv s L F)
    (hsz : szE (d + 1) (.func va ps (pre ++ last :: post)) < 2 ^ 30)
    (hconsts : s'.consts.size ≤ 65536) (hglob : rootMax s'.tables ≤ 65536) :
    ∃ k, FnTail s' s.consts.size k ps.length va n sp zop zargs := by
  rw [compileExpr] at h
  rw [szE_func] at hsz
  obtain ⟨_, s0, h0, hA⟩ := bind_ok h
  clear h
  have e0 := enterScope_ok h0; simp only at e0; subst e0
  obtain ⟨_, s1, h1, hB⟩ := bind_ok hA
  obtain ⟨_, s2, h2, hC⟩ := bind_ok hB
  obtain ⟨_, s3, h3, hD⟩ := bind_ok hC
  obtain ⟨st, s3', h4, hE⟩ := bind_ok hD
  clear hA hB hC hD
  have e4 := get_ok h4
  have est : st = s3 := (Prod.mk.inj e4).1
  have es3' : s3' = s3 := (Prod.mk.inj e4).2
  rw [est, es3'] at hE
  clear e4 est es3' h4
  dsimp only at hE
  obtain ⟨instructions, s4, h5, hF⟩ := bind_ok hE
  clear hE
  obtain ⟨hnl, hG⟩ := guard_ok hF
  clear hF
  obtain ⟨hnf, hH⟩ := guard_ok hG
  clear hG
  obtain ⟨_, s5, h6, hI⟩ := bind_ok hH
  obtain ⟨k, s6, h7, hJ⟩ := bind_ok hI
  clear hH hI
  -- the scope of the function
  have hinv0 : Inv (enterS s) [] F := hinv.enter
  obtain ⟨hinv1, hst1, hi1, hl1⟩ := params_inv ps _ s1 [] F h1 hinv0
  have hloops1 : s1.loops = [] := by rw [hl1]; rfl
  -- size of the raw body, from C02's result for the same compilation
  obtain ⟨Bb', F₂', bs', cs', ob'⟩ := (all_spec d).b (pre ++ last :: post) s1 s2 [] F h2 hinv1 (by omega)
  have hsize2 : s2.insts.size ≤ szBlock d (pre ++ last :: post) := by
    have := ob'.inv.em.size
    simp only [List.nil_append] at this
    rw [this]; exact ob'.size
  -- the body, statement by statement
  obtain ⟨st0, ss0, hss⟩ : ∃ st0 ss0, pre ++ last :: post = st0 :: ss0 := by
    cases pre with
    | nil => exact ⟨last, post, rfl⟩
    | cons a pre => exact ⟨a, pre ++ last :: post, rfl⟩
  cases d with
  | zero => rw [compileBlock] at h2; exact (unsupported_ok h2).elim
  | succ d0 =>
  have hcb : compileBlock (d0 + 1) (pre ++ last :: post) = (do fork true; compileStmts d0 (pre ++ last :: post); unfork) := by
    rw [hss, compileBlock]; simp
  have hszd : szBlock (d0 + 1) (pre ++ last :: post) = szSs d0 (pre ++ last :: post) := by rw [hss, szBlock]; simp
  rw [hcb] at h2
  rw [hszd] at hsz hsize2
  obtain ⟨_, sa, ha, h2'⟩ := bind_ok h2
  obtain ⟨_, sb, hb, h2''⟩ := bind_ok h2'
  have ea : sa = forkS true s1 := by
    rw [fork_run] at ha; injection ha with ha; exact (Prod.mk.inj ha).2.symm
  have eb : s2 = unforkS sb := by
    rw [unfork_run] at h2''; injection h2'' with h2''; exact (Prod.mk.inj h2'').2.symm
  subst ea; subst eb
  obtain ⟨d', sm, smid, Bp, F1, hlastc, hpostc, hinvm, hstm, hlm, htm, hbm, hszm, hszp⟩ :=
    stmts_pre pre d0 last post (forkS true s1) sb [] F hb hinv1.fork (by omega) hpre hloops1
  have htail : TailEnd sm sb ([] ++ Bp) F1 n sp zop zargs := by
    have ht0 := hlast d' sm smid ([] ++ Bp) F1 hlastc hinvm hszm hlm
    rcases hpost with hp | hp
    · subst hp
      rw [compileStmts] at hpostc
      have e : sb = smid := (Prod.mk.inj (pure_ok hpostc)).2
      subst e; exact ht0
    · subst hp
      exact ht0.suffix hlm (fun L₁ F₁ hi => (all_spec (d' + 1)).ss post smid sb L₁ F₁ hpostc hi hszp)
  obtain ⟨P, N, x, z, R, F₂, hinvb, hstb, _, htP, hnN, hsbl, hxo, hxa, hzo, hza, hR⟩ := htail
  simp only [List.nil_append, totalSize_nil, Nat.zero_add] at hinvm htm hbm hinvb htP hsbl
  have hstfb : Step (forkS true s1) sb F F₂ := hstm.trans hstb
  obtain ⟨hst, t, tps, ht, hbk, hne⟩ := Step.unfork hstfb
  have hinv2 : Inv (unforkS sb) (Bp ++ (P ++ N ++ [x, z] ++ R)) F₂ :=
    hinvb.unfork ht hbk (by rw [hne]; exact hinv1.wfc.ne_nil)
  have hblk : SBlk 0 (totalSize Bp + totalSize (P ++ N ++ [x, z] ++ R)) (Bp ++ (P ++ N ++ [x, z] ++ R)) [] [] := by
    have := hbm.append hsbl
    simpa using this
  -- the optimizer
  obtain ⟨res, hres, es3⟩ := optimizeFunc_ok h3
  simp only at es3; subst es3
  -- the tables after the body
  have hst02 : Step (enterS s) (unforkS sb) F F₂ := hst1.trans hst
  have htab := hst02.tabs
  generalize hc2 : (unforkS sb).tables = c2 at htab
  cases c2 with
  | nil => exact htab.elim
  | cons ft c2 =>
    obtain ⟨⟨hfb, _, _⟩, hle⟩ := htab
    have hfb' : ft.block = false := hfb.symm
    have hne2 : c2.isEmpty = false := by rw [← hle.isEmpty]; exact hinv.wfc.ne_nil
    have hsaved : (unforkS sb).saved = { insts := s.insts, loops := s.loops } :: s.saved := hst02.saved
    have e5 := leaveScope_ok (s := { unforkS sb with insts := res.bytes.toArray }) hsaved h5
    have einstr : instructions = res.bytes.toArray := (Prod.mk.inj e5).1
    have es4 : s4 = _ := (Prod.mk.inj e5).2
    subst es4; subst einstr
    have hps : leaveS { unforkS sb with insts := res.bytes.toArray } { insts := s.insts, loops := s.loops } s.saved =
        { unforkS sb with insts := s.insts, loops := s.loops, saved := s.saved, tables := c2 } := by
      simp [leaveS, hc2, parentSkip, hfb']
    rw [hps] at h6
    simp only [hc2, List.headD_cons] at hnl hnf h6 h7 hJ
    -- back in the enclosing function
    have hinv4 : Inv { unforkS sb with insts := s.insts, loops := s.loops, saved := s.saved, tables := c2 } L F₂ := by
      have ht2 := hinv2.tinv; rw [hc2] at ht2
      have hw2 := hinv2.wfc; rw [hc2] at hw2
      have hstc : s.consts.toList <+: (unforkS sb).consts.toList := hst02.consts
      refine ⟨⟨hinv.em.bytes, hinv.em.lay, hinv.em.shape⟩, hinv2.flen, ht2.2.2, hw2.tail hne2, ?_, ?_⟩
      · intro i hi
        exact (hinv.ops i hi).mono hstc hst02.fs (envOf_le hle)
      · have := hinv2.cok; rw [hc2, rootMax_cons hne2] at this; exact this
    have horig : ∀ o ∈ ft.freeSymbols, OrigOK c2 o := by
      have ht2 := hinv2.tinv; rw [hc2] at ht2
      exact ht2.2.1 hfb'
    have rf := forM_qres _ OrigOK (fun c c' a hcl => OrigOK.mono hcl) 5
      (fun a s s₁ L F h hinv hr => free_step a s s₁ L F h hinv hr) ft.freeSymbols _ s5 L F₂ h6 hinv4 horig
    obtain ⟨Bf, F₃, of, hbf⟩ := rf
    -- the function constant
    have e7 := addConstant_ok h7
    have ek : k = s5.consts.size := (Prod.mk.inj e7).1
    have es6 : s6 = addS _ s5 := (Prod.mk.inj e7).2
    subst es6; subst ek
    -- the final state
    have hfin : s'.consts = (addS (Const.fn res.bytes ft.maxDefinition ps.length va) s5).consts ∧
        s'.tables = s5.tables := by
      split at hJ
      · have e8 := demit_ok hJ; simp only at e8; subst e8; exact ⟨rfl, rfl⟩
      · have e8 := demit_ok hJ; simp only at e8; subst e8; exact ⟨rfl, rfl⟩
    obtain ⟨hfc, hft⟩ := hfin
    have hk1 : s'.consts.toList[s5.consts.size]? = some (Const.fn res.bytes ft.maxDefinition ps.length va) := by
      rw [hfc]; simp [addS]
    have hpre5 : (unforkS sb).consts.toList <+: s5.consts.toList := of.step.consts
    have hlen5 : s5.consts.size + 1 = s'.consts.size := by rw [hfc]; simp [addS]
    have hlo : s.consts.size ≤ s5.consts.size := by
      have h1 := (hst02.consts).length_le
      have h2 := hpre5.length_le
      simp only [Array.length_toList] at h1 h2
      have : (enterS s).consts.size = s.consts.size := rfl
      omega
    -- decoding of the raw body
    obtain ⟨H, hcore⟩ := hblk.closed
    have henv2 : envOf (unforkS sb).tables = ⟨ft.maxDefinition, ft.freeSymbols.length, rootMax c2, true⟩ := by
      rw [hc2]
      simp only [envOf, locMax, freeCnt, globalCtx, hfb', hne2, Bool.false_eq_true, if_false, rootMax_cons hne2,
        Bool.not_false]
    have hbnd : Bnd (unforkS sb).consts.toList ⟨ft.maxDefinition, ft.freeSymbols.length, rootMax c2, true⟩ := by
      refine ⟨?_, by show ft.maxDefinition ≤ 256; omega, by show ft.freeSymbols.length ≤ 256; omega, ?_⟩
      · have h2 := hpre5.length_le
        simp only [Array.length_toList] at h2 ⊢
        omega
      · show rootMax c2 ≤ 65536
        have := of.step.tabs.rootMax
        rw [hft] at hglob
        exact Nat.le_trans this hglob
    have hLbsz : totalSize (Bp ++ (P ++ N ++ [x, z] ++ R)) < 2 ^ 30 := by
      have := hinv2.em.size
      rw [← this]; omega
    have hshape := hinv2.em.shape
    have hdec : decode (encode (Bp ++ (P ++ N ++ [x, z] ++ R))) = some (Bp ++ (P ++ N ++ [x, z] ++ R)) := by
      refine core_decode (cs := (unforkS sb).consts.toList) (F := F₂) hcore hshape ?_ hbnd ?_
      · intro i hi
        have := hinv2.ops i hi
        rw [henv2] at this; exact this
      · rw [← totalSize_append]; omega
    have hlen : (encode (Bp ++ (P ++ N ++ [x, z] ++ R))).length = totalSize (Bp ++ (P ++ N ++ [x, z] ++ R)) :=
      encode_length hshape
    have hopt : Optimizer.opt (encode (Bp ++ (P ++ N ++ [x, z] ++ R))) [] 0 = .ok res := by
      rw [← hinv2.em.bytes]; exact hres
    -- positions
    have hlay := hinv2.em.lay
    have hLb : Bp ++ (P ++ N ++ [x, z] ++ R) = (Bp ++ P) ++ (N ++ [x]) ++ (z :: R) := by simp
    have hxs : x.size = 3 := call_size hxo
    have hpos := tail_positions (lo := 0) (A := Bp ++ P ++ N) (R := R) (x := x) (z := z) (by
      have e : Bp ++ P ++ N ++ [x, z] ++ R = Bp ++ (P ++ N ++ [x, z] ++ R) := by simp
      rw [e]; exact hlay)
    have hxp : x.pos = totalSize Bp + totalSize P + totalSize N := by
      rw [hpos.1]; simp only [totalSize_append]; omega
    have hzp : z.pos = totalSize Bp + totalSize P + totalSize N + 3 := by
      rw [hpos.2, hxs]; simp only [totalSize_append]; omega
    have hzend : zop ≠ opReturn → z.pos + z.size = totalSize (Bp ++ (P ++ N ++ [x, z] ++ R)) := by
      intro hne
      rcases hR with hR | hR
      · subst hR
        simp only [totalSize_append, totalSize_cons, totalSize_nil, hxs, hzp]; omega
      · exact absurd hR hne
    -- liveness
    have hlN : Layout (totalSize Bp + totalSize P) (N ++ [x]) := by
      rw [hLb] at hlay
      have h1 := (layout_split hlay).1
      have h2 := (layout_split h1).2
      simpa [totalSize_append] using h2
    have hNx : NoRet (N ++ [x]) := by
      refine hnN.append ?_
      intro i hi
      simp only [List.mem_singleton] at hi
      subst hi
      rw [hxo]; exact call_ne_ret
    have hthru : Thru 0 (totalSize Bp + totalSize P) (Bp ++ P) := htm.append htP
    obtain ⟨m, hm⟩ := live_newPos (R := z :: R) hthru hNx hlN (x := x) (by simp)
    rw [← hLb] at hm
    refine ⟨s5.consts.size, res, ft.maxDefinition, Bp ++ (P ++ N ++ [x, z] ++ R), x, z, m, hlo, hk1, hdec,
      by rw [hlen]; omega, hopt, by simp, by simp, hxo, hxa, by rw [hzp, hxp, hxs],
      hzo, hza, by rw [hlen]; exact hzend, hm⟩

end Tengo.Proofs.C16Fn

import Tengo.Proofs.C10HeapInvSep
import Tengo.Proofs.C09Closed
/-!
C10 over the heap model — separation along operation sequences, derived from the INITIAL disjointness only.

`side_ops_keep`: let `A` be a region of the heap `h` (closed under pointers, owning all future allocations) that no
cell of `b` belongs to, and `P` a set of handle indices whose handles hold values of `A`. Then ANY operation sequence
whose operations read handles of `P` only leaves every cell of `b` unchanged (`KeptF`, deep snapshots), and afterwards
every handle of `P` — the old ones and all the handles the sequence pushed — still shares no cell with `b`.
No per-step hypothesis (`OpsAway`) is left: that the mutating operations are never aimed at something reaching `b`
is derived from the invariant `step_keep`.
-/
namespace Tengo.Proofs.C10Heap
open Tengo.Model.Heap9 Tengo.Model.HeapCopy Tengo.Props.C09

/-- Every operation of the sequence reads handles of `P` only (a condition on the text of the sequence). -/
def OpsUse (P : Nat → Prop) (ops : List Op) : Prop := ∀ op ∈ ops, ∀ x ∈ operands op, P x

theorem subject_mem_operands {op : Op} {x : Nat} (hs : subject op = some x) : x ∈ operands op := by
  cases op <;> simp [subject] at hs <;> subst hs <;> simp [operands]

/-- A step whose footprint misses what `b` reaches: `b` reaches afterwards nothing it did not reach before. -/
theorem foot_reach_from {h h' : Heap} {T : Cell → Prop} (f : Foot h h' T) (c : Closed h) (w : Wf h) {b : Val} {x : Cell}
    (rc : Reach h' b x) : OldVal h b → (∀ y, Reach h b y → ¬ T y) → Reach h b x := by
  have hobj : ∀ {r : Nat}, r < h.objs.length → ¬ T (.obj r) → h'.obj r = h.obj r := by
    intro r hl nt
    have h1 : h.objs[r]? = some h.objs[r] := List.getElem?_eq_getElem hl
    rw [obj_of_some (f.objs _ _ h1 nt), obj_of_some h1]
  induction rc with
  | obj _ => intro ob _; exact .obj (ob _ rfl)
  | arrStore ho =>
    intro ob d
    have hl := ob _ rfl
    rw [hobj hl (d _ (.obj hl))] at ho
    exact .arrStore ho
  | arrElem ho hx _ ih =>
    intro ob d
    have hl := ob _ rfl
    rw [hobj hl (d _ (.obj hl))] at ho
    obtain ⟨st, hs⟩ := closed_arr c (obj_some ho (by simp))
    have hs' := f.astores _ _ hs (d _ (.arrStore ho))
    rw [content_eq hs', ← content_eq hs] at hx
    exact .arrElem ho hx (ih (old_content w hx) (fun y ry => d y (.arrElem ho hx ry)))
  | mapStore ho =>
    intro ob d
    have hl := ob _ rfl
    rw [hobj hl (d _ (.obj hl))] at ho
    exact .mapStore ho
  | mapElem ho hx _ ih =>
    intro ob d
    have hl := ob _ rfl
    rw [hobj hl (d _ (.obj hl))] at ho
    obtain ⟨st, hs⟩ := closed_map c (obj_some ho (by simp))
    have hs' := f.mstores _ _ hs (d _ (.mapStore ho))
    rw [mstore_eq hs', ← mstore_eq hs] at hx
    exact .mapElem ho hx (ih (old_mstore w hx) (fun y ry => d y (.mapElem ho hx ry)))
  | errPayload ho _ ih =>
    intro ob d
    have hl := ob _ rfl
    rw [hobj hl (d _ (.obj hl))] at ho
    exact .errPayload ho (ih (old_payload w ho) (fun y ry => d y (.errPayload ho ry)))

theorem keptF_oldVal {h0 h : Heap} {b : Val} (k : KeptF h0 h b) (ob : OldVal h0 b) : OldVal h b := by
  intro r e
  subst e
  have hl := ob r rfl
  exact lt_of_lookup (k.objs r _ (.obj hl) (List.getElem?_eq_getElem hl))

/-- The invariant along a sequence. -/
theorem run_side {h0 : Heap} {b : Val} {A : Cell → Prop} {P : Nat → Prop} (c0 : Closed h0)
    (dis : ∀ y, Reach h0 b y → ¬ A y) (ob0 : OldVal h0 b) :
    ∀ (ops : List Op) (h : Heap), Closed h → Wf h → RI h A →
      (∀ (i : Nat) (v : Val), h.regs[i]? = some v → P i → InV A v) →
      KeptF h0 h b → (∀ y, Reach h b y → Reach h0 b y) → OpsUse P ops →
      KeptF h0 (run h ops) b ∧ (∀ y, Reach (run h ops) b y → Reach h0 b y) ∧ RI (run h ops) A ∧
      ∀ (i : Nat) (v : Val), (run h ops).regs[i]? = some v → P i → InV A v := by
  intro ops
  induction ops with
  | nil => intro h _ _ ri hp k rb _; exact ⟨k, rb, ri, hp⟩
  | cons op ops ih =>
    intro h c w ri hp k rb use
    have hin : ∀ x ∈ operands op, ∀ v, h.regs[x]? = some v → InV A v :=
      fun x hx v hv => hp x v hv (use op (List.mem_cons_self ..) x hx)
    have kp := step_keep c ri op hin
    have f := step_foot h op
    have d : ∀ y, Reach h b y → ¬ (∃ x, subject op = some x ∧ Aim h x y) := by
      intro y rby ⟨x, hs, v, hv, rv⟩
      exact dis y (rb y rby) (region_reach ri.reg rv (hin x (subject_mem_operands hs) v hv))
    have k1 : KeptF h0 (step h op).1 b := k.step c0 f d
    have rb1 : ∀ y, Reach (step h op).1 b y → Reach h0 b y :=
      fun y ry => rb y (foot_reach_from f c w ry (keptF_oldVal k ob0) d)
    have hp1 : ∀ (i : Nat) (v : Val), (step h op).1.regs[i]? = some v → P i → InV A v := by
      intro i v hv pi
      rcases kp.regs i v hv with e | e
      · exact hp i v e pi
      · exact e
    exact ih _ (Tengo.Proofs.C09Closed.step_closed c op) (step_wf w op) kp.ri hp1 k1 rb1
      (fun o ho => use o (List.mem_cons_of_mem _ ho))

/-- Separation needs the initial disjointness only. -/
theorem side_ops_keep {h : Heap} {b : Val} {A : Cell → Prop} {P : Nat → Prop} (c : Closed h) (w : Wf h) (ri : RI h A)
    (ob : OldVal h b) (dis : ∀ y, Reach h b y → ¬ A y)
    (hp : ∀ (i : Nat) (v : Val), h.regs[i]? = some v → P i → InV A v) (ops : List Op) (use : OpsUse P ops) :
    KeptF h (run h ops) b ∧ (∀ n, snapN n (run h ops) b = snapN n h b) ∧
    ∀ (i : Nat) (v : Val), (run h ops).regs[i]? = some v → P i → Sep (run h ops) v b := by
  obtain ⟨k, rb, ri', hp'⟩ := run_side c dis ob ops h c w ri hp (KeptF.refl h b) (fun _ r => r) use
  refine ⟨k, fun n => KeptF.snap c w.refs n b ob k, ?_⟩
  intro i v hv pi y rv rby
  exact dis y (rb y rby) (region_reach ri'.reg rv (hp' i v hv pi))

/-- With the side given by a set `S` of handles: the handles of `S` and all handles pushed later may be used. -/
theorem handles_ops_keep {h : Heap} {b : Val} (c : Closed h) (w : Wf h) (S : Nat → Prop) (ob : OldVal h b)
    (sep : ∀ (i : Nat) (v : Val), S i → h.regs[i]? = some v → Sep h v b) (ops : List Op)
    (use : OpsUse (fun i => S i ∨ h.regs.length ≤ i) ops) :
    KeptF h (run h ops) b ∧ (∀ n, snapN n (run h ops) b = snapN n h b) ∧
    ∀ (i : Nat) (v : Val), (run h ops).regs[i]? = some v → (S i ∨ h.regs.length ≤ i) → Sep (run h ops) v b := by
  refine side_ops_keep (A := Side h (fun v => ∃ i, S i ∧ h.regs[i]? = some v)) c w (ri_side w _) ob ?_ ?_ ops use
  · intro y rby sy
    rcases sy with ⟨v, ⟨i, si, hv⟩, rv⟩ | n
    · exact sep i v si hv y rv rby
    · exact reach_old c rby n
  · intro i v hv pi
    rcases pi with si | hl
    · exact inV_side ⟨i, si, hv⟩
    · have := lt_of_lookup hv; omega

end Tengo.Proofs.C10Heap

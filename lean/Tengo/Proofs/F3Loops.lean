import Tengo.Proofs.F3Stmts
/-!
Fragment F3, proof layer 5: `if` / `if-else` and the three loop forms, as in F2 on the new machine.
-/
set_option linter.unusedSimpArgs false
set_option linter.unusedVariables false
namespace Tengo.Model.F3
open Tengo.Model.F0 (Sem upd)
variable {V : Type}

section cases
variable {E : Env V} {P : Prog}

/-- A condition followed by `JMPF t`: the run up to the branch taken. -/
theorem condJ {f : Nat} {c : Ex} (ihc : OkE E P f c)
    {g : Nat → V} {l : Locals V} {fn : Nat} {code : List Ins} {nl off bp sp : Nat} {stk : Nat → V} {dis : Bool}
    {cl : List Frame} (t : Nat)
    (hc : (compProg P).code fn = some code) (hnt : FrameOk P fn nl)
    (hat : At code off (comp off c ++ [Ins.jmpf t])) (hl : LocRel nl l stk bp) (hsp : bp + nl ≤ sp) :
    match evalE E P f c g l with
    | .val a g1 => ∃ stk1, Runs E (compProg P) ⟨fn, off, bp, sp, stk, g, dis, cl⟩
        ⟨fn, if E.S.falsy a then t else off + esize c + 5, bp, sp, stk1, g1, dis, cl⟩ ∧
        Same nl bp sp stk stk1 ∧ LocRel nl l stk1 bp
    | .err => Fails E (compProg P) ⟨fn, off, bp, sp, stk, g, dis, cl⟩
    | _ => True := by
  obtain ⟨hfI, h⟩ := evalI (g := g) (dis := dis) (cl := cl) ihc _ rfl hc hnt hat hl hsp
  cases ha : evalE E P f c g l with
  | val v g1 =>
    rw [ha] at h
    obtain ⟨stk1, hr, hv, hs, hl1⟩ := h
    have hst := step_jmpf (E := E) (bp := bp) (g := g1) (dis := dis) (cl := cl) (stk := stk1) (sp := sp) hc hfI
    rw [hv] at hst
    exact ⟨stk1, hr.trans (Runs.step hst), Same.of_below hs, hl1⟩
  | err => rw [ha] at h; exact h
  | out => trivial
  | bad => trivial

theorem landed_here {M : Mach} {fn ip bp sp nl : Nat} {stk stk1 g g1 : Nat → V} {dis : Bool} {cl : List Frame}
    {l : Locals V} {ip' : Nat}
    (hr : Runs E M ⟨fn, ip, bp, sp, stk, g, dis, cl⟩ ⟨fn, ip', bp, sp, stk1, g1, dis, cl⟩)
    (hsm : Same nl bp sp stk stk1) (hl : LocRel nl l stk1 bp) :
    Landed E M ⟨fn, ip, bp, sp, stk, g, dis, cl⟩ nl ip' g1 l := ⟨stk1, hr, hl, hsm⟩

theorem okS_ifs (f : Nat) (c : Ex) (body : Stms) (ihc : OkE E P f c) (ihb : OkSs E P f body) :
    OkS E P (f + 1) (.ifs c body) := by
  intro g l fn code nl bt ct off bp sp stk dis cl hc hnt hat hsl hl hsp
  have hA : At code off (comp off c ++ [Ins.jmpf (off + esize c + 5 + sssize body)] ++
      compSs bt ct (off + esize c + 5) body) := by simpa [compS] using hat
  have hslb : slotsSs nl body = true := by simpa [slotsS] using hsl
  have h := condJ (g := g) (dis := dis) (cl := cl) ihc _ hc hnt hA.left hl hsp
  simp only [execS]
  cases ha : evalE E P f c g l with
  | val a g1 =>
    rw [ha] at h
    obtain ⟨stk1, hr, hsm, hl1⟩ := h
    dsimp only
    by_cases hfa : E.S.falsy a = true
    · simp only [hfa, if_true] at hr ⊢
      exact Or.inl (landed_here (hr.of_eq (by simp [ssize]; omega)) hsm hl1)
    · simp only [hfa, Bool.false_eq_true, if_false] at hr ⊢
      have hb := ihb g1 l fn code nl bt ct (off + esize c + 5) bp sp stk1 dis cl hc hnt
        (hA.right (by simp [csize_append, csize_comp, csize, Ins.size] <;> omega)) hslb hl1 hsp
      exact (GoodS.pre (s := ⟨fn, off, bp, sp, stk, g, dis, cl⟩) hr hsm (by dsimp only; omega) hb).fin
        (by simp [ssize]; omega)
  | err => rw [ha] at h; exact h
  | out => trivial
  | bad => trivial

theorem okS_ifelse (f : Nat) (c : Ex) (body els : Stms) (ihc : OkE E P f c) (ihb : OkSs E P f body)
    (ihe : OkSs E P f els) : OkS E P (f + 1) (.ifelse c body els) := by
  intro g l fn code nl bt ct off bp sp stk dis cl hc hnt hat hsl hl hsp
  have hA : At code off (comp off c ++ [Ins.jmpf (off + esize c + 5 + sssize body + 5)] ++
      compSs bt ct (off + esize c + 5) body ++ [Ins.jmp (off + esize c + 5 + sssize body + 5 + sssize els)] ++
      compSs bt ct (off + esize c + 5 + sssize body + 5) els) := by simpa [compS] using hat
  simp only [slotsS, Bool.and_eq_true] at hsl
  have h := condJ (g := g) (dis := dis) (cl := cl) ihc _ hc hnt hA.left.left.left hl hsp
  have hfj2 := (hA.left.right (off' := off + esize c + 5 + sssize body)
    (by simp [csize_append, csize_comp, csize_compSs, csize, Ins.size] <;> omega)).fetch
  simp only [execS]
  cases ha : evalE E P f c g l with
  | val a g1 =>
    rw [ha] at h
    obtain ⟨stk1, hr, hsm, hl1⟩ := h
    dsimp only
    by_cases hfa : E.S.falsy a = true
    · simp only [hfa, if_true] at hr ⊢
      have he := ihe g1 l fn code nl bt ct (off + esize c + 5 + sssize body + 5) bp sp stk1 dis cl hc hnt
        (hA.right (by simp [csize_append, csize_comp, csize_compSs, csize, Ins.size] <;> omega)) hsl.2 hl1 hsp
      exact (GoodS.pre (s := ⟨fn, off, bp, sp, stk, g, dis, cl⟩) hr hsm (by dsimp only; omega) he).fin
        (by simp [ssize]; omega)
    · simp only [hfa, Bool.false_eq_true, if_false] at hr ⊢
      have hb := ihb g1 l fn code nl bt ct (off + esize c + 5) bp sp stk1 dis cl hc hnt
        (hA.left.left.right (by simp [csize_append, csize_comp, csize, Ins.size] <;> omega)) hsl.1 hl1 hsp
      have hb' := GoodS.pre (s := ⟨fn, off, bp, sp, stk, g, dis, cl⟩) hr hsm (by dsimp only; omega) hb
      cases heb : execSs E P f body g1 l with
      | done g2 l2 =>
        rw [heb] at hb'
        rcases hb' with ⟨stk2, hr2, hl2, hsm2⟩ | ⟨hrn, _⟩
        · dsimp only at hr2 hl2 hsm2
          have hst := step_jmp (E := E) (bp := bp) (sp := sp) (g := g2) (dis := dis) (cl := cl) (stk := stk2) hc hfj2
          exact Or.inl (landed_here ((hr2.trans (Runs.step hst)).of_eq (by simp [ssize]; omega)) hsm2 hl2)
        · rw [retNext_of_fetch hfj2 (by intro b hb; cases hb)] at hrn; cases hrn
      | brk g2 l2 => rw [heb] at hb'; exact hb'
      | cont g2 l2 => rw [heb] at hb'; exact hb'
      | ret v g2 => rw [heb] at hb'; exact hb'
      | err => rw [heb] at hb'; exact hb'
      | out => trivial
      | bad => trivial
  | err => rw [ha] at h; exact h
  | out => trivial
  | bad => trivial

theorem okS_whil (f : Nat) (c : Ex) (body : Stms) (ihc : OkE E P f c) (ihb : OkSs E P f body)
    (ihw : OkS E P f (.whil c body)) : OkS E P (f + 1) (.whil c body) := by
  intro g l fn code nl bt ct off bp sp stk dis cl hc hnt hat hsl hl hsp
  have hA : At code off (comp off c ++ [Ins.jmpf (off + esize c + 5 + sssize body + 5)] ++
      compSs (off + esize c + 5 + sssize body + 5) (off + esize c + 5 + sssize body) (off + esize c + 5) body ++
      [Ins.jmp off]) := by simpa [compS] using hat
  have hslb : slotsSs nl body = true := by simpa [slotsS] using hsl
  have h := condJ (g := g) (dis := dis) (cl := cl) ihc _ hc hnt hA.left.left hl hsp
  have hfb := (hA.right (off' := off + esize c + 5 + sssize body)
    (by simp [csize_append, csize_comp, csize_compSs, csize, Ins.size] <;> omega)).fetch
  -- after the body (normal end or `continue`): the jump back, the loop again at smaller fuel
  have hrest : ∀ g2 l2, Landed E (compProg P) ⟨fn, off, bp, sp, stk, g, dis, cl⟩ nl
      (off + esize c + 5 + sssize body) g2 l2 →
      GoodS E (compProg P) code ⟨fn, off, bp, sp, stk, g, dis, cl⟩ nl (off + ssize (.whil c body)) bt ct
        (execS E P f (.whil c body) g2 l2) := by
    intro g2 l2 hland
    obtain ⟨stk2, hr2, hl2, hsm2⟩ := hland
    dsimp only at hr2 hl2 hsm2
    have hst := step_jmp (E := E) (bp := bp) (sp := sp) (g := g2) (dis := dis) (cl := cl) (stk := stk2) hc hfb
    have hw := ihw g2 l2 fn code nl bt ct off bp sp stk2 dis cl hc hnt hat hsl hl2 hsp
    exact GoodS.pre (s := ⟨fn, off, bp, sp, stk, g, dis, cl⟩) (hr2.trans (Runs.step hst)) hsm2
      (by dsimp only; omega) hw
  simp only [execS]
  cases ha : evalE E P f c g l with
  | val a g1 =>
    rw [ha] at h
    obtain ⟨stk1, hr, hsm, hl1⟩ := h
    dsimp only
    by_cases hfa : E.S.falsy a = true
    · simp only [hfa, if_true] at hr ⊢
      exact Or.inl (landed_here (hr.of_eq (by simp [ssize]; omega)) hsm hl1)
    · simp only [hfa, Bool.false_eq_true, if_false] at hr ⊢
      have hb := ihb g1 l fn code nl _ _ (off + esize c + 5) bp sp stk1 dis cl hc hnt
        (hA.left.right (by simp [csize_append, csize_comp, csize, Ins.size] <;> omega)) hslb hl1 hsp
      have hb' := GoodS.pre (s := ⟨fn, off, bp, sp, stk, g, dis, cl⟩) hr hsm (by dsimp only; omega) hb
      cases heb : execSs E P f body g1 l with
      | done g2 l2 =>
        rw [heb] at hb'
        rcases hb' with hland | ⟨hrn, _⟩
        · exact hrest g2 l2 hland
        · rw [retNext_of_fetch hfb (by intro b hb; cases hb)] at hrn; cases hrn
      | cont g2 l2 => rw [heb] at hb'; exact hrest g2 l2 hb'
      | brk g2 l2 =>
        rw [heb] at hb'
        obtain ⟨stk2, hr2, hl2, hsm2⟩ := hb'
        exact Or.inl (landed_here (hr2.of_eq (by simp [ssize]; omega)) hsm2 hl2)
      | ret v g2 => rw [heb] at hb'; exact hb'
      | err => rw [heb] at hb'; exact hb'
      | out => trivial
      | bad => trivial
  | err => rw [ha] at h; exact h
  | out => trivial
  | bad => trivial

theorem okS_forever (f : Nat) (body : Stms) (ihb : OkSs E P f body) (ihw : OkS E P f (.forever body)) :
    OkS E P (f + 1) (.forever body) := by
  intro g l fn code nl bt ct off bp sp stk dis cl hc hnt hat hsl hl hsp
  have hA : At code off (compSs (off + sssize body + 5) (off + sssize body) off body ++ [Ins.jmp off]) := by
    simpa [compS] using hat
  have hslb : slotsSs nl body = true := by simpa [slotsS] using hsl
  have hfb := (hA.right (off' := off + sssize body) (by simp [csize_compSs])).fetch
  have hrest : ∀ g2 l2, Landed E (compProg P) ⟨fn, off, bp, sp, stk, g, dis, cl⟩ nl (off + sssize body) g2 l2 →
      GoodS E (compProg P) code ⟨fn, off, bp, sp, stk, g, dis, cl⟩ nl (off + ssize (.forever body)) bt ct
        (execS E P f (.forever body) g2 l2) := by
    intro g2 l2 hland
    obtain ⟨stk2, hr2, hl2, hsm2⟩ := hland
    dsimp only at hr2 hl2 hsm2
    have hst := step_jmp (E := E) (bp := bp) (sp := sp) (g := g2) (dis := dis) (cl := cl) (stk := stk2) hc hfb
    have hw := ihw g2 l2 fn code nl bt ct off bp sp stk2 dis cl hc hnt hat hsl hl2 hsp
    exact GoodS.pre (s := ⟨fn, off, bp, sp, stk, g, dis, cl⟩) (hr2.trans (Runs.step hst)) hsm2
      (by dsimp only; omega) hw
  have hb := ihb g l fn code nl _ _ off bp sp stk dis cl hc hnt hA.left hslb hl hsp
  simp only [execS]
  cases heb : execSs E P f body g l with
  | done g2 l2 =>
    rw [heb] at hb
    rcases hb with hland | ⟨hrn, _⟩
    · exact hrest g2 l2 hland
    · rw [retNext_of_fetch hfb (by intro b hb; cases hb)] at hrn; cases hrn
  | cont g2 l2 => rw [heb] at hb; exact hrest g2 l2 hb
  | brk g2 l2 =>
    rw [heb] at hb
    obtain ⟨stk2, hr2, hl2, hsm2⟩ := hb
    exact Or.inl (landed_here (hr2.of_eq (by simp [ssize] <;> omega)) hsm2 hl2)
  | ret v g2 => rw [heb] at hb; exact hb
  | err => rw [heb] at hb; exact hb
  | out => trivial
  | bad => trivial

theorem okS_for3 (f : Nat) (c : Ex) (body : Stms) (post : Stm) (ihc : OkE E P f c) (ihb : OkSs E P f body)
    (ihp : OkS E P f post) (ihw : OkS E P f (.for3 c body post)) : OkS E P (f + 1) (.for3 c body post) := by
  intro g l fn code nl bt ct off bp sp stk dis cl hc hnt hat hsl hl hsp
  have hA : At code off (comp off c ++ [Ins.jmpf (off + esize c + 5 + sssize body + ssize post + 5)] ++
      compSs (off + esize c + 5 + sssize body + ssize post + 5) (off + esize c + 5 + sssize body)
        (off + esize c + 5) body ++
      compS bt ct (off + esize c + 5 + sssize body) post ++ [Ins.jmp off]) := by
    simpa [compS] using hat
  have hsl' := hsl
  simp only [slotsS, Bool.and_eq_true] at hsl'
  have h := condJ (g := g) (dis := dis) (cl := cl) ihc _ hc hnt hA.left.left.left hl hsp
  have hfb := (hA.right (off' := off + esize c + 5 + sssize body + ssize post)
    (by simp [csize_append, csize_comp, csize_compSs, csize_compS, csize, Ins.size] <;> omega)).fetch
  have hApost := hA.left.right (off' := off + esize c + 5 + sssize body)
    (by simp [csize_append, csize_comp, csize_compSs, csize, Ins.size] <;> omega)
  -- after the body (normal end or `continue`): the post statement, the jump back, the loop again
  have hrest : ∀ g2 l2, Landed E (compProg P) ⟨fn, off, bp, sp, stk, g, dis, cl⟩ nl
      (off + esize c + 5 + sssize body) g2 l2 →
      GoodS E (compProg P) code ⟨fn, off, bp, sp, stk, g, dis, cl⟩ nl (off + ssize (.for3 c body post)) bt ct
        (match execS E P f post g2 l2 with
          | .done g3 l3 => execS E P f (.for3 c body post) g3 l3
          | r => r) := by
    intro g2 l2 hland
    obtain ⟨stk2, hr2, hl2, hsm2⟩ := hland
    dsimp only at hr2 hl2 hsm2
    have hp := ihp g2 l2 fn code nl bt ct (off + esize c + 5 + sssize body) bp sp stk2 dis cl hc hnt hApost
      hsl'.2 hl2 hsp
    have hp' := GoodS.pre (s := ⟨fn, off, bp, sp, stk, g, dis, cl⟩) hr2 hsm2 (by dsimp only; omega) hp
    cases hep : execS E P f post g2 l2 with
    | done g3 l3 =>
      rw [hep] at hp'
      rcases hp' with ⟨stk3, hr3, hl3, hsm3⟩ | ⟨hrn, _⟩
      · dsimp only at hr3 hl3 hsm3 ⊢
        have hst := step_jmp (E := E) (bp := bp) (sp := sp) (g := g3) (dis := dis) (cl := cl) (stk := stk3) hc hfb
        have hw := ihw g3 l3 fn code nl bt ct off bp sp stk3 dis cl hc hnt hat hsl hl3 hsp
        exact GoodS.pre (s := ⟨fn, off, bp, sp, stk, g, dis, cl⟩) (hr3.trans (Runs.step hst)) hsm3
          (by dsimp only; omega) hw
      · rw [retNext_of_fetch hfb (by intro b hb; cases hb)] at hrn; cases hrn
    | brk g3 l3 => rw [hep] at hp'; exact hp'
    | cont g3 l3 => rw [hep] at hp'; exact hp'
    | ret v g3 => rw [hep] at hp'; exact hp'
    | err => rw [hep] at hp'; exact hp'
    | out => trivial
    | bad => trivial
  simp only [execS]
  cases ha : evalE E P f c g l with
  | val a g1 =>
    rw [ha] at h
    obtain ⟨stk1, hr, hsm, hl1⟩ := h
    dsimp only
    by_cases hfa : E.S.falsy a = true
    · simp only [hfa, if_true] at hr ⊢
      exact Or.inl (landed_here (hr.of_eq (by simp [ssize]; omega)) hsm hl1)
    · simp only [hfa, Bool.false_eq_true, if_false] at hr ⊢
      have hb := ihb g1 l fn code nl _ _ (off + esize c + 5) bp sp stk1 dis cl hc hnt
        (hA.left.left.right (by simp [csize_append, csize_comp, csize, Ins.size] <;> omega)) hsl'.1 hl1 hsp
      have hb' := GoodS.pre (s := ⟨fn, off, bp, sp, stk, g, dis, cl⟩) hr hsm (by dsimp only; omega) hb
      cases heb : execSs E P f body g1 l with
      | done g2 l2 =>
        rw [heb] at hb'
        rcases hb' with hland | ⟨hrn, hret⟩
        · exact hrest g2 l2 hland
        · -- the frame has already returned: the post statement starts with the `RET` that would have done it
          dsimp only
          rcases execS_at_ret (E := E) (P := P) hApost hrn f g2 l2 with he | he
          · rw [he]
            show Returned _ _ _ (if dis then E.S.undef else E.S.undef) g2
            cases dis <;> exact hret
          · rw [he]; trivial
      | cont g2 l2 => rw [heb] at hb'; exact hrest g2 l2 hb'
      | brk g2 l2 =>
        rw [heb] at hb'
        obtain ⟨stk2, hr2, hl2, hsm2⟩ := hb'
        exact Or.inl (landed_here (hr2.of_eq (by simp [ssize]; omega)) hsm2 hl2)
      | ret v g2 => rw [heb] at hb'; exact hb'
      | err => rw [heb] at hb'; exact hb'
      | out => trivial
      | bad => trivial
  | err => rw [ha] at h; exact h
  | out => trivial
  | bad => trivial

end cases

end Tengo.Model.F3

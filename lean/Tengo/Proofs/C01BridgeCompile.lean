import Tengo.Proofs.C01BridgeStmt
/-!
C01 bridge, layer 4 (compiler bridge): `Compiler.initState` gives the pre-declared inputs the global slots
in order (`initInv_inputs`), hence `Compiler.compileFile` of the embedded program emits the fragment
compiler's bytes (`compileFile_fragment`).
-/
set_option linter.unusedVariables false
set_option linter.unusedSimpArgs false
namespace Tengo.Proofs.C01Bridge
open Tengo.Model Tengo.Model.F0 Tengo.Model.Compiler Tengo.Model.Opcodes
open Tengo.Model.Spec (Expr Stmt)

/-! ### the initial state: inputs take the global slots in order -/

/-- One input of `initState` (its local `step`). -/
def stepI (acc : CState) (nm : String) : CState :=
  let (_, c) := defineIn nm acc.nextId acc.tables
  { acc with tables := c, nextId := acc.nextId + 1, assigned := acc.assigned.push false }

theorem initState_eq (inputs : List String) : initState inputs = inputs.foldl stepI (initState []) := rfl

structure InitInv (names : Nat → String) (j : Nat) (s : CState) : Prop where
  tabs : ∃ root, s.tables = [root] ∧ root.block = false ∧ root.numDefinition = j ∧ root.maxDefinition = j ∧
    ∀ i, i < j → ∃ id, root.store.lookup (names i) = some ⟨names i, .global, i, id⟩
  insts : s.insts = #[]
  consts : s.consts = #[]

theorem initInv_zero (names : Nat → String) : InitInv names 0 (initState []) := by
  refine ⟨⟨_, rfl, rfl, rfl, rfl, ?_⟩, rfl, rfl⟩
  intro i hi; omega

theorem initInv_step {names : Nat → String} {j : Nat} {s : CState} (h : InitInv names j s)
    (hne : ∀ i, i < j → names i ≠ names j) : InitInv names (j + 1) (stepI s (names j)) := by
  obtain ⟨⟨root, ht, hb, hn, hm, hl⟩, hi, hc⟩ := h
  refine ⟨?_, hi, hc⟩
  simp only [stepI, ht, defineIn, nextIndex, globalCtx, hb, hn, incRoot, updateMax, hm]
  refine ⟨_, rfl, ?_, rfl, ?_, ?_⟩
  · simp [hb]
  · simp
  · intro i hi'
    by_cases hij : i = j
    · subst hij
      exact ⟨s.nextId, by simp [List.lookup]⟩
    · obtain ⟨id, hid⟩ := hl i (by omega)
      refine ⟨id, ?_⟩
      have : (names i == names j) = false := by
        simp only [beq_eq_false_iff_ne, ne_eq]
        exact hne i (by omega)
      simp [List.lookup, this, hid]

theorem initInv_fold {names : Nat → String} (n : Nat)
    (hinj : ∀ i j, i < n → j < n → names i = names j → i = j) :
    ∀ (m j : Nat) (s : CState), j + m ≤ n → InitInv names j s →
      InitInv names (j + m) (((List.range' j m).map names).foldl stepI s)
  | 0, j, s, _, h => by simpa using h
  | m + 1, j, s, hle, h => by
    simp only [List.range'_succ, List.map_cons, List.foldl_cons]
    have h1 := initInv_step h (fun i hi he => by have := hinj i j (by omega) (by omega) he; omega)
    have h2 := initInv_fold n hinj m (j + 1) _ (by omega) h1
    have e : j + 1 + m = j + (m + 1) := by omega
    rw [e] at h2
    exact h2

theorem initInv_inputs {names : Nat → String} (n : Nat)
    (hinj : ∀ i j, i < n → j < n → names i = names j → i = j) :
    InitInv names n (initState (inputsOf names n)) := by
  rw [initState_eq, inputsOf, List.range_eq_range']
  have := initInv_fold n hinj n 0 _ (by omega) (initInv_zero names)
  simpa using this

theorem InitInv.good {names : Nat → String} {n : Nat} {s : CState} (h : InitInv names n s) :
    GoodChain names n s.tables := by
  obtain ⟨⟨root, ht, hb, hn, hm, hl⟩, hi, hc⟩ := h
  exact ⟨0, root, by simpa using ht, hl⟩


/-! ### the compiler bridge -/

/-- Constants of the fragment's pool, as the real compiler lists them. -/
def constTable (ctab : Nat → F0.Const) (m : Nat) : List Compiler.Const :=
  (List.range m).map (fun j => constOf (ctab j))

theorem lits_zero_start (ctab : Nat → F0.Const) (m : Nat) : lits ctab 0 m = constTable ctab m := by
  simp [lits, constTable, List.range_eq_range']

/-- **Compiler bridge.** For every program `ss` of fragment F1 whose global slots are below `n`, whose
binary tokens are operators, whose literals are numbered in compilation order from 0 (`wfSs n 0 ss`), and
whose nesting fits the traversal budget of the compiler model: the WHOLE compiler model, run on the
embedded AST with the `n` slots pre-declared as inputs, succeeds, and its main function is byte for
byte the encoding of the fragment compiler's output `F1.compSs 0 ss` followed by SUSPEND; the constant
pool is the fragment's constant table; `MaxSymbols()` of the root table is `n`. -/
theorem compileFile_fragment (names : Nat → String) (ctab : Nat → F0.Const) (n : Nat) (ss : F1.Stms)
    (hinj : ∀ i j, i < n → j < n → names i = names j → i = j)
    (hwf : wfSs n 0 ss = true) (hbud : budSs ss ≤ Compiler.fuel) :
    compileFile (toAstSs names ctab ss) (inputsOf names n) =
      .ok { main := encodeIns (F1.compSs 0 ss) ++ [UInt8.ofNat opSuspend],
            consts := constTable ctab (nlitsSs ss),
            maxGlobals := n } := by
  have hinv := initInv_inputs n hinj
  have hs := stmtsOK (names := names) (ctab := ctab) (n := n) ss Compiler.fuel _ hbud hinv.good
    (by rw [hinv.consts]; exact hwf)
  obtain ⟨⟨root, ht, hb, hn, hm, hl⟩, hi, hc⟩ := hinv
  unfold compileFile
  have hrun : (compileStmts Compiler.fuel (toAstSs names ctab ss)).run (initState (inputsOf names n)) = _ := hs
  rw [hrun]
  simp only [app_tables, ht, hi, hc, app]
  simp [hm, lits_zero_start]

end Tengo.Proofs.C01Bridge

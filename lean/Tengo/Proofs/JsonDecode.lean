import Tengo.Proofs.JsonAccept
import Tengo.Proofs.JsonUnquote
/-!
C18, "grammar ⇒ decoder": on a text of the grammar nested at most `maxNestingDepth` deep the decoder (`value` / `array` / `object` /
`literal` driven by the scanner's opcodes) never reaches a phase panic, does not run out of the fuel
`decode` gives it, and returns the value the text denotes.
-/
namespace Tengo.Proofs.JsonDecode
open Tengo.Model.Json Tengo.Proofs.JsonScan Tengo.Proofs.JsonGrammar Tengo.Proofs.JsonAccept

/-- What the decoder state looks like: a clean scanner in control state `(st, σ)`, the unread input,
the last byte read and the last opcode. -/
structure Sees (d : DState) (st : Step) (σ : List PS) (rest : Bytes) (last : UInt8) (op : Op) : Prop where
  clean : Clean d.scan
  step : d.scan.step = st
  stack : d.scan.stack = σ
  rest : d.rest = rest
  last : d.last = last
  op : d.opcode = op

/-- White space is skipped with opcode `scanSkipSpace` and no state change. -/
def SpaceLoopOp (st : Step) (σ : List PS) : Prop :=
  st ≠ .error ∧ ∀ c, isSpace c = true → delta st σ c = goTo st σ .skipSpace

theorem slo_beginValue (σ : List PS) : SpaceLoopOp .beginValue σ :=
  ⟨by decide, fun c h => by simp [delta, stateBeginValue, h]⟩
theorem slo_beginValueOrEmpty (σ : List PS) : SpaceLoopOp .beginValueOrEmpty σ :=
  ⟨by decide, fun c h => by simp [delta, stateBeginValueOrEmpty, h]⟩
theorem slo_beginString (σ : List PS) : SpaceLoopOp .beginString σ :=
  ⟨by decide, fun c h => by simp [delta, stateBeginString, h]⟩
theorem slo_beginStringOrEmpty (σ : List PS) : SpaceLoopOp .beginStringOrEmpty σ :=
  ⟨by decide, fun c h => by simp [delta, stateBeginStringOrEmpty, h]⟩
theorem slo_endValue (p : PS) (σ : List PS) : SpaceLoopOp .endValue (p :: σ) :=
  ⟨by decide, fun c h => by simp [delta, stateEndValue, h]⟩

/-- `scanWhile(scanSkipSpace)` over white space followed by a byte with another opcode. -/
theorem scanWhile_ws (st : Step) (σ : List PS) (hl : SpaceLoopOp st σ) (w : Bytes) (hw : WS w) (c : UInt8) (rest : Bytes)
    (hop : (delta st σ c).op ≠ .skipSpace) (hne : (delta st σ c).step ≠ .error) :
    ∀ (s : Scanner) (last : UInt8), Clean s → s.step = st → s.stack = σ →
      Sees (scanWhile .skipSpace s last (w ++ c :: rest)).2.2 (delta st σ c).step (delta st σ c).stack rest c (delta st σ c).op := by
  induction w with
  | nil =>
    intro s last hc hst hsk
    subst hst hsk
    obtain ⟨hc', hop', _, hstep, hstack⟩ := step1_clean s hc c hne
    simp only [List.nil_append, scanWhile, hop', ne_eq, hop, not_false_eq_true, if_true]
    exact ⟨hc', hstep, hstack, rfl, rfl, hop'⟩
  | cons a w ih =>
    intro s last hc hst hsk
    subst hst hsk
    have ha := hw a (by simp)
    have hd := hl.2 a ha
    have hne' : (delta s.step s.stack a).step ≠ .error := by rw [hd]; exact hl.1
    obtain ⟨hc', hop', _, hstep, hstack⟩ := step1_clean s hc a hne'
    rw [hd] at hop' hstep hstack
    simp only [List.cons_append, scanWhile, hop', goTo, ne_eq, not_true_eq_false, if_false]
    exact ih (fun x hx => hw x (by simp [hx])) _ _ hc' hstep hstack

/-- `scanWhile(scanContinue)` over a `scanContinue` run followed by a byte with another opcode: the
run is what was consumed, `isFloat` looks at the run and the terminating byte. -/
theorem scanWhile_conts (σ : List PS) (t : Bytes) (c : UInt8) (rest : Bytes) :
    ∀ (st st' : Step) (s : Scanner) (last : UInt8), conts st σ t = some st' →
      (delta st' σ c).op ≠ .continue_ → (delta st' σ c).step ≠ .error →
      Clean s → s.step = st → s.stack = σ →
      (scanWhile .continue_ s last (t ++ c :: rest)).1 = t ∧
      (scanWhile .continue_ s last (t ++ c :: rest)).2.1 = (t ++ [c]).any isFloatByte ∧
      Sees (scanWhile .continue_ s last (t ++ c :: rest)).2.2 (delta st' σ c).step (delta st' σ c).stack rest c
        (delta st' σ c).op := by
  induction t with
  | nil =>
    intro st st' s last hcs hop hne hc hst hsk
    simp only [conts, Option.some.injEq] at hcs
    subst hcs hst hsk
    obtain ⟨hc', hop', _, hstep, hstack⟩ := step1_clean s hc c hne
    simp only [List.nil_append, scanWhile, hop', ne_eq, hop, not_false_eq_true, if_true, List.any_cons, List.any_nil,
      Bool.or_false, true_and]
    exact ⟨hc', hstep, hstack, rfl, rfl, hop'⟩
  | cons a t ih =>
    intro st st' s last hcs hop hne hc hst hsk
    subst hst hsk
    simp only [conts] at hcs
    split at hcs
    · rename_i hcond
      obtain ⟨h1, h2, h3⟩ := hcond
      obtain ⟨hc', hop', _, hstep, hstack⟩ := step1_clean s hc a h2
      rw [h3] at hstack
      have := ih _ st' (s.step1 a).1 a hcs hop hne hc' hstep hstack
      simp only [List.cons_append, scanWhile, hop', h1, ne_eq, not_true_eq_false, if_false, List.any_cons]
      exact ⟨by rw [this.1], by rw [this.2.1], this.2.2⟩
    · exact absurd hcs (by simp)

/-- The same at the end of the input. -/
theorem scanWhile_conts_eof (σ : List PS) (t : Bytes) :
    ∀ (st st' : Step) (s : Scanner) (last : UInt8), conts st σ t = some st' → Clean s → s.step = st → s.stack = σ →
      (scanWhile .continue_ s last t).1 = t ∧ (scanWhile .continue_ s last t).2.1 = t.any isFloatByte := by
  induction t with
  | nil => intro st st' s last _ _ _ _; simp [scanWhile]
  | cons a t ih =>
    intro st st' s last hcs hc hst hsk
    subst hst hsk
    simp only [conts] at hcs
    split at hcs
    · rename_i hcond
      obtain ⟨h1, h2, h3⟩ := hcond
      obtain ⟨hc', hop', _, hstep, hstack⟩ := step1_clean s hc a h2
      rw [h3] at hstack
      have := ih _ st' (s.step1 a).1 a hcs hc' hstep hstack
      simp only [scanWhile, hop', h1, ne_eq, not_true_eq_false, if_false, List.any_cons]
      exact ⟨by rw [this.1], by rw [this.2]⟩
    · exact absurd hcs (by simp)

/-! ### literals -/

theorem endValue_op_ne (σ : List PS) (c : UInt8) : (stateEndValue σ c).op ≠ .continue_ := by
  unfold stateEndValue
  split
  · unfold stateEndTop; split <;> simp [goTo]
  · (repeat' split) <;> first | (simp [goTo, failAt]; done) | (unfold popTo; split <;> simp [goTo])

/-- The state after a finished value in stack context `σ` when the next byte is `c`. -/
def SeesAfter (d : DState) (σ : List PS) (c : UInt8) (rest : Bytes) : Prop :=
  Sees d (stateEndValue σ c).step (stateEndValue σ c).stack rest c (stateEndValue σ c).op

def litResult (pf : Bytes → UInt64) (c0 : UInt8) (t' : Bytes) (d' : DState) : DRes J :=
  if c0 = 0x6E then .ok .null d'
  else if c0 = 0x74 then .ok (.bool true) d'
  else if c0 = 0x66 then .ok (.bool false) d'
  else if c0 = 0x22 then
    match unquote (c0 :: t') with
    | some s => .ok (.str s) d'
    | none => .panic phasePanic
  else if c0 ≠ 0x2D && (c0.toNat < 0x30 || c0.toNat > 0x39) then .panic phasePanic
  else .ok (number pf (t'.any isFloatByte) (c0 :: t')) d'

/-- `literal()` on a token `c0 :: t'` whose tail is a `scanContinue` run, followed by byte `c`. -/
theorem literal_next (pf : Bytes → UInt64) (c0 : UInt8) (t' : Bytes) (σ : List PS) (c : UInt8) (rest : Bytes) (d : DState)
    (st1 st' : Step) (hs : Sees d st1 σ (t' ++ c :: rest) c0 .beginLiteral) (hc : conts st1 σ t' = some st')
    (hd : delta st' σ c = stateEndValue σ c) (hne : (stateEndValue σ c).step ≠ .error) (hfl : isFloatByte c = false) :
    ∃ d', SeesAfter d' σ c rest ∧ literal pf d = litResult pf c0 t' d' := by
  have hop : (delta st' σ c).op ≠ .continue_ := by rw [hd]; exact endValue_op_ne σ c
  have hne' : (delta st' σ c).step ≠ .error := by rw [hd]; exact hne
  obtain ⟨h1, h2, h3⟩ := scanWhile_conts σ t' c rest st1 st' d.scan d.last hc hop hne' hs.clean hs.step hs.stack
  rw [hd] at h3
  refine ⟨(scanWhile .continue_ d.scan d.last (t' ++ c :: rest)).2.2, h3, ?_⟩
  have hfl' : (t' ++ [c]).any isFloatByte = t'.any isFloatByte := by simp [hfl]
  unfold literal DState.scanWhile
  rw [hs.rest, hs.last]
  rw [hs.last] at h1 h2
  generalize scanWhile .continue_ d.scan c0 (t' ++ c :: rest) = r at h1 h2 ⊢
  obtain ⟨r1, r2, r3⟩ := r
  simp only at h1 h2
  subst h1 h2
  simp only [litResult, hfl']
  rfl

/-- The same at the end of the input. -/
theorem literal_eof (pf : Bytes → UInt64) (c0 : UInt8) (t' : Bytes) (σ : List PS) (d : DState)
    (st1 st' : Step) (hs : Sees d st1 σ t' c0 .beginLiteral) (hc : conts st1 σ t' = some st') :
    ∃ d', literal pf d = litResult pf c0 t' d' := by
  obtain ⟨h1, h2⟩ := scanWhile_conts_eof σ t' st1 st' d.scan d.last hc hs.clean hs.step hs.stack
  refine ⟨(scanWhile .continue_ d.scan d.last t').2.2, ?_⟩
  unfold literal DState.scanWhile
  rw [hs.rest, hs.last]
  rw [hs.last] at h1 h2
  generalize scanWhile .continue_ d.scan c0 t' = r at h1 h2 ⊢
  obtain ⟨r1, r2, r3⟩ := r
  simp only at h1 h2
  subst h1 h2
  rfl

theorem value_literal (pf : Bytes → UInt64) (f : Nat) (d : DState) (h : d.opcode = .beginLiteral) :
    value pf (f + 1) d = literal pf d := by
  simp [value, h]

/-! ### small steps of the decoder -/

theorem scanNext_sees (d : DState) (st : Step) (σ : List PS) (c : UInt8) (rest : Bytes) (l : UInt8) (o : Op)
    (hs : Sees d st σ (c :: rest) l o) (hne : (delta st σ c).step ≠ .error) :
    Sees d.scanNext (delta st σ c).step (delta st σ c).stack rest c (delta st σ c).op := by
  obtain ⟨hc, hst, hsk, hr, _, _⟩ := hs
  subst hst hsk
  obtain ⟨hc', hop', _, hstep, hstack⟩ := step1_clean d.scan hc c hne
  unfold DState.scanNext
  rw [hr]
  exact ⟨hc', hstep, hstack, rfl, rfl, hop'⟩

theorem delta_popTo (σ : List PS) (op : Op) (c : UInt8) :
    (delta (popTo σ op).step (popTo σ op).stack c).step = (stateEndValue σ c).step ∧
    (delta (popTo σ op).step (popTo σ op).stack c).stack = (stateEndValue σ c).stack ∧
    (delta (popTo σ op).step (popTo σ op).stack c).op = (stateEndValue σ c).op := by
  cases σ with
  | nil => simp [popTo, delta, stateEndValue]
  | cons p σ => simp [popTo, goTo, delta]

/-- After the closing bracket/brace, `scanNext` brings the decoder to the after-value state. -/
theorem scanNext_after_close (d : DState) (σ : List PS) (op : Op) (c : UInt8) (rest : Bytes) (l : UInt8) (o : Op)
    (hs : Sees d (popTo σ op).step (popTo σ op).stack (c :: rest) l o) (hne : (stateEndValue σ c).step ≠ .error) :
    SeesAfter d.scanNext σ c rest := by
  obtain ⟨h1, h2, h3⟩ := delta_popTo σ op c
  have := scanNext_sees d _ _ c rest l o hs (by rw [h1]; exact hne)
  rw [h1, h2, h3] at this
  exact this

theorem endValue_space (p : PS) (σ : List PS) (a : UInt8) (ha : isSpace a = true) :
    stateEndValue (p :: σ) a = goTo .endValue (p :: σ) .skipSpace := by
  simp [stateEndValue, ha]

/-- `if d.opcode == scanSkipSpace { d.scanWhile(scanSkipSpace) }` after a value inside a composite:
the decoder ends up having read the punctuation byte `p` that follows the white space. -/
theorem after_value_ws (ps : PS) (σ : List PS) (w : Bytes) (hw : WS w) (p : UInt8) (rest : Bytes) (d2 : DState)
    (hop : (stateEndValue (ps :: σ) p).op ≠ .skipSpace) (hne : (stateEndValue (ps :: σ) p).step ≠ .error)
    (h : ∀ c rest0, w ++ p :: rest = c :: rest0 → SeesAfter d2 (ps :: σ) c rest0) :
    SeesAfter (if d2.opcode = .skipSpace then (d2.scanWhile .skipSpace).2.2 else d2) (ps :: σ) p rest := by
  cases w with
  | nil =>
    have h2 := h p rest rfl
    have : d2.opcode ≠ .skipSpace := by rw [h2.op]; exact hop
    simp only [this, if_false]
    exact h2
  | cons a w =>
    have ha := hw a (by simp)
    have h2 := h a (w ++ p :: rest) rfl
    unfold SeesAfter at h2
    rw [endValue_space ps σ a ha] at h2
    have hop2 : d2.opcode = .skipSpace := h2.op
    simp only [hop2, if_true]
    unfold DState.scanWhile
    rw [h2.rest]
    exact scanWhile_ws .endValue (ps :: σ) (slo_endValue ps σ) w (fun x hx => hw x (by simp [hx])) p rest hop hne
      d2.scan d2.last h2.clean h2.step h2.stack

/-- The byte that follows a value inside a composite (`w ++ p :: rest` is what follows). -/
theorem next_byte (ps : PS) (σ : List PS) (w : Bytes) (hw : WS w) (p : UInt8) (rest : Bytes) (hp : Follow p)
    (hne : (stateEndValue (ps :: σ) p).step ≠ .error) :
    ∃ c rest0, w ++ p :: rest = c :: rest0 ∧ Follow c ∧ (stateEndValue (ps :: σ) c).step ≠ .error := by
  cases w with
  | nil => exact ⟨p, rest, rfl, hp, hne⟩
  | cons a w =>
    have ha := hw a (by simp)
    exact ⟨a, w ++ p :: rest, rfl, follow_space a ha, by rw [endValue_space ps σ a ha]; simp [goTo]⟩

/-- What `stateBeginValue` does on the first byte of a value, when an opening bracket or brace finds
room on the parse stack. -/
theorem valStart_begin (σ : List PS) (c : UInt8) (h : ValStart c) (hroom : c = 0x7B ∨ c = 0x5B → σ.length < maxNestingDepth) :
    (stateBeginValue σ c).step ≠ .error ∧ (stateBeginValue σ c).op ≠ .skipSpace ∧
    (stateBeginValue σ c).op ≠ .endArray ∧ (stateBeginValue σ c).op ≠ .endObject := by
  obtain ⟨hs, _, _⟩ := valStart_facts c h
  unfold stateBeginValue
  rw [if_neg (by simp [hs])]
  rcases h with rfl | rfl | rfl | rfl | rfl | rfl | rfl | rfl | hd
  · simp [pushTo_ok _ _ _ _ (hroom (.inl rfl)), goTo]
  · simp [pushTo_ok _ _ _ _ (hroom (.inr rfl)), goTo]
  all_goals first | (simp [goTo]; done) | skip
  have hd' := hd
  simp only [isDigit19, Bool.and_eq_true, decide_eq_true_eq] at hd'
  have hne : c ≠ 0x7B ∧ c ≠ 0x5B := by
    refine ⟨?_, ?_⟩ <;> (intro e; subst e; simp at hd')
  rw [if_neg hne.1, if_neg hne.2]
  (repeat' split) <;> simp_all [goTo]

/-- The first byte of a value nested at most `n` deep is an opening bracket or brace only if `n > 0`. -/
theorem valD_room {pf : Bytes → UInt64} {n : Nat} {c : UInt8} {t' : Bytes} {v : J} (hv : ValD pf n (c :: t') v)
    (σ : List PS) (hd : σ.length + n ≤ maxNestingDepth) : c = 0x7B ∨ c = 0x5B → σ.length < maxNestingDepth := by
  intro hc
  generalize ht : c :: t' = t at hv
  cases hv with
  | null => cases ht; rcases hc with hc | hc <;> exact absurd hc (by decide)
  | true => cases ht; rcases hc with hc | hc <;> exact absurd hc (by decide)
  | false => cases ht; rcases hc with hc | hc <;> exact absurd hc (by decide)
  | num hn =>
    cases hn with
    | neg _ => cases ht; rcases hc with hc | hc <;> exact absurd hc (by decide)
    | zero _ => cases ht; rcases hc with hc | hc <;> exact absurd hc (by decide)
    | int hd9 _ =>
      cases ht
      simp only [isDigit19, Bool.and_eq_true, decide_eq_true_eq] at hd9
      rcases hc with hc | hc <;> (subst hc; simp at hd9)
  | str _ => simp only [quote, List.cons_append, List.cons.injEq] at ht; rcases hc with hc | hc <;> (rw [hc] at ht; exact absurd ht.1 (by decide))
  | arrEmpty _ => omega
  | arr _ => omega
  | objEmpty _ => omega
  | obj _ => omega

theorem orEmpty_start (σ : List PS) (c : UInt8) (h : ValStart c) :
    delta .beginValueOrEmpty σ c = stateBeginValue σ c := by
  obtain ⟨hs, h2, _⟩ := valStart_facts c h
  simp [delta, stateBeginValueOrEmpty, hs, h2]

/-! ### the specification of `value` / `arrayLoop` / `objectLoop` on texts of the grammar -/

def SpecNext (pf : Bytes → UInt64) (n : Nat) (t : Bytes) (v : J) : Prop :=
  ∀ c0 t', t = c0 :: t' → ∀ (σ : List PS) (c : UInt8) (rest : Bytes) (f : Nat) (d : DState),
    σ.length + n ≤ maxNestingDepth → Follow c → (stateEndValue σ c).step ≠ .error → 2 * t.length ≤ f →
    Sees d (stateBeginValue σ c0).step (stateBeginValue σ c0).stack (t' ++ c :: rest) c0 (stateBeginValue σ c0).op →
    ∃ d', value pf f d = .ok v d' ∧ SeesAfter d' σ c rest

def SpecEof (pf : Bytes → UInt64) (n : Nat) (t : Bytes) (v : J) : Prop :=
  ∀ c0 t', t = c0 :: t' → ∀ (σ : List PS) (f : Nat) (d : DState), σ.length + n ≤ maxNestingDepth → 2 * t.length ≤ f →
    Sees d (stateBeginValue σ c0).step (stateBeginValue σ c0).stack t' c0 (stateBeginValue σ c0).op →
    ∃ d', value pf f d = .ok v d'

def SpecVal (pf : Bytes → UInt64) (n : Nat) (t : Bytes) (v : J) : Prop := SpecNext pf n t v ∧ SpecEof pf n t v

def SpecElems (pf : Bytes → UInt64) (n : Nat) (e : Bytes) (xs : JList) : Prop :=
  ∀ (σ : List PS) (rest : Bytes) (f : Nat) (d : DState) (st0 : Step) (l : UInt8) (op0 : Op),
    σ.length + 1 + n ≤ maxNestingDepth → (st0 = .beginValue ∨ st0 = .beginValueOrEmpty) → 2 * e.length + 1 ≤ f →
    Sees d st0 (.arr :: σ) (e ++ 0x5D :: rest) l op0 →
    ∃ d', arrayLoop pf f d = .ok xs d' ∧
      Sees d' (popTo σ .endArray).step (popTo σ .endArray).stack rest 0x5D .endArray

def SpecMembers (pf : Bytes → UInt64) (n : Nat) (m : Bytes) (es : JMems) : Prop :=
  ∀ (σ : List PS) (rest : Bytes) (f : Nat) (d : DState) (st0 : Step) (l : UInt8) (op0 : Op),
    σ.length + 1 + n ≤ maxNestingDepth → (st0 = .beginString ∨ st0 = .beginStringOrEmpty) → 2 * m.length + 1 ≤ f →
    Sees d st0 (.objKey :: σ) (m ++ 0x7D :: rest) l op0 →
    ∃ d', objectLoop pf f d = .ok es d' ∧
      Sees d' (popTo σ .endObject).step (popTo σ .endObject).stack rest 0x7D .endObject

/-- A scalar token: first byte `c0` starts a literal, the tail is a `scanContinue` run to a state
that hands any `Follow` byte to `stateEndValue`, and `literal()` produces `v` from it. -/
theorem spec_scalar (pf : Bytes → UInt64) (n : Nat) (c0 : UInt8) (t' : Bytes) (v : J) (st1 : Step)
    (hb : ∀ σ, stateBeginValue σ c0 = goTo st1 σ .beginLiteral)
    (hc : ∀ σ, ∃ st', conts st1 σ t' = some st' ∧ ∀ c, Follow c → delta st' σ c = stateEndValue σ c)
    (hr : ∀ d', litResult pf c0 t' d' = .ok v d') : SpecVal pf n (c0 :: t') v := by
  constructor
  · intro c0' t'' he σ c rest f d _ hf hne hfuel hs
    cases he
    rw [hb σ] at hs
    obtain ⟨st', h1, h2⟩ := hc σ
    obtain ⟨d', hd', hl⟩ := literal_next pf c0 t' σ c rest d st1 st' hs h1 (h2 c hf) hne hf.2
    obtain ⟨f', rfl⟩ : ∃ f', f = f' + 1 := ⟨f - 1, by simp at hfuel; omega⟩
    exact ⟨d', by rw [value_literal pf f' d hs.op, hl, hr], hd'⟩
  · intro c0' t'' he σ f d _ hfuel hs
    cases he
    rw [hb σ] at hs
    obtain ⟨st', h1, _⟩ := hc σ
    obtain ⟨d', hl⟩ := literal_eof pf c0 t' σ d st1 st' hs h1
    obtain ⟨f', rfl⟩ : ∃ f', f = f' + 1 := ⟨f - 1, by simp at hfuel; omega⟩
    exact ⟨d', by rw [value_literal pf f' d hs.op, hl, hr]⟩

theorem spec_null (pf : Bytes → UInt64) (n : Nat) : SpecVal pf n [0x6E, 0x75, 0x6C, 0x6C] .null :=
  spec_scalar pf n 0x6E _ _ .n (fun σ => by simp [stateBeginValue, isSpace])
    (fun σ => ⟨.endValue, by simp [conts, delta, stateLit, goTo], fun c _ => rfl⟩) (fun d' => by simp [litResult])

theorem spec_true (pf : Bytes → UInt64) (n : Nat) : SpecVal pf n [0x74, 0x72, 0x75, 0x65] (.bool true) :=
  spec_scalar pf n 0x74 _ _ .t (fun σ => by simp [stateBeginValue, isSpace])
    (fun σ => ⟨.endValue, by simp [conts, delta, stateLit, goTo], fun c _ => rfl⟩) (fun d' => by simp [litResult])

theorem spec_false (pf : Bytes → UInt64) (n : Nat) : SpecVal pf n [0x66, 0x61, 0x6C, 0x73, 0x65] (.bool false) :=
  spec_scalar pf n 0x66 _ _ .f (fun σ => by simp [stateBeginValue, isSpace])
    (fun σ => ⟨.endValue, by simp [conts, delta, stateLit, goTo], fun c _ => rfl⟩) (fun d' => by simp [litResult])

theorem spec_str (pf : Bytes → UInt64) (n : Nat) {b : Bytes} (hb : StrBody b) (hq : (unquote (quote b)).isSome = true) :
    SpecVal pf n (quote b) (.str (strDen b)) := by
  have hu : unquote (0x22 :: (b ++ [0x22])) = some (strDen b) := by
    unfold strDen
    cases h : unquote (quote b) with
    | none => rw [h] at hq; simp at hq
    | some s => simpa [quote] using h
  exact spec_scalar pf n 0x22 (b ++ [0x22]) _ .inString (fun σ => by simp [stateBeginValue, isSpace])
    (fun σ => ⟨.endValue, conts_strBody σ hb, fun c _ => rfl⟩) (fun d' => by simp [litResult, hu])

theorem spec_num (pf : Bytes → UInt64) (n : Nat) {t : Bytes} (hn : NumTok t) :
    SpecVal pf n t (number pf (t.any isFloatByte) t) := by
  cases hn with
  | neg hrest =>
    refine spec_scalar pf n 0x2D _ _ .neg (fun σ => by simp [stateBeginValue, isSpace]) (fun σ => ?_) (fun d' => ?_)
    · obtain ⟨st', h1, h2⟩ := conts_numRest σ hrest
      exact ⟨st', h1, fun c hc => final_follow st' σ c h2 hc⟩
    · simp [litResult, isFloatByte]
  | zero hrest =>
    refine spec_scalar pf n 0x30 _ _ .s0 (fun σ => by simp [stateBeginValue, isSpace]) (fun σ => ?_) (fun d' => ?_)
    · obtain ⟨st', h1, h2⟩ := conts_numRest σ hrest
      exact ⟨st', h1, fun c hc => final_follow st' σ c h2 hc⟩
    · simp [litResult, isFloatByte]
  | @int d0 _ hd hrest =>
    obtain ⟨hs, _, _⟩ := valStart_facts d0 (by simp [ValStart, hd])
    have hd' := hd
    simp only [isDigit19, Bool.and_eq_true, decide_eq_true_eq] at hd'
    have hne : d0 ≠ 0x7B ∧ d0 ≠ 0x5B ∧ d0 ≠ 0x22 ∧ d0 ≠ 0x2D ∧ d0 ≠ 0x30 ∧ d0 ≠ 0x74 ∧ d0 ≠ 0x66 ∧ d0 ≠ 0x6E := by
      refine ⟨?_, ?_, ?_, ?_, ?_, ?_, ?_, ?_⟩ <;> (intro e; subst e; simp at hd')
    obtain ⟨n1, n2, n3, n4, n5, n6, n7, n8⟩ := hne
    refine spec_scalar pf n d0 _ _ .s1 (fun σ => by simp [stateBeginValue, hs, n1, n2, n3, n4, n5, n6, n7, n8, hd])
      (fun σ => ?_) (fun d' => ?_)
    · obtain ⟨st', h1, h2⟩ := conts_numRest σ hrest
      exact ⟨st', h1, fun c hc => final_follow st' σ c h2 hc⟩
    · have hfl : isFloatByte d0 = false := by
        simp only [isFloatByte, Bool.or_eq_false_iff, decide_eq_false_iff_not]
        refine ⟨⟨?_, ?_⟩, ?_⟩ <;> (intro e; subst e; simp at hd')
      have h30 : ¬ d0.toNat < 0x30 := by omega
      have h39 : ¬ d0.toNat > 0x39 := by omega
      simp [litResult, n8, n6, n7, n3, hfl, h30, h39]

/-! ### arrays and objects -/

theorem spec_array (pf : Bytes → UInt64) (n : Nat) (body : Bytes) (xs : JList)
    (h : ∀ (σ : List PS) (rest : Bytes) (f : Nat) (d : DState), σ.length + 1 + n ≤ maxNestingDepth → 2 * body.length + 1 ≤ f →
      Sees d .beginValueOrEmpty (.arr :: σ) (body ++ 0x5D :: rest) 0x5B .beginArray →
      ∃ d', arrayLoop pf f d = .ok xs d' ∧ Sees d' (popTo σ .endArray).step (popTo σ .endArray).stack rest 0x5D .endArray) :
    SpecVal pf (n + 1) (0x5B :: body ++ [0x5D]) (.arr xs) := by
  have hb : ∀ σ : List PS, σ.length < maxNestingDepth →
      stateBeginValue σ 0x5B = goTo .beginValueOrEmpty (.arr :: σ) .beginArray := by
    intro σ hσ; simp [stateBeginValue, isSpace, pushTo_ok _ _ _ _ hσ]
  constructor
  · intro c0 t' he σ c rest f d hdep _ hne hfuel hs
    simp only [List.cons_append, List.cons.injEq] at he
    obtain ⟨rfl, rfl⟩ := he
    rw [hb σ (by omega)] at hs
    simp only [goTo, List.append_assoc, List.cons_append, List.nil_append] at hs
    simp only [List.length_cons, List.length_append, List.length_nil] at hfuel
    obtain ⟨f', rfl⟩ : ∃ f', f = f' + 1 := ⟨f - 1, by omega⟩
    obtain ⟨d', ha, hd'⟩ := h σ (c :: rest) f' d (by omega) (by omega) hs
    refine ⟨d'.scanNext, by simp [value, hs.op, ha], ?_⟩
    exact scanNext_after_close d' σ .endArray c rest _ _ hd' hne
  · intro c0 t' he σ f d hdep hfuel hs
    simp only [List.cons_append, List.cons.injEq] at he
    obtain ⟨rfl, rfl⟩ := he
    rw [hb σ (by omega)] at hs
    simp only [goTo] at hs
    simp only [List.length_cons, List.length_append, List.length_nil] at hfuel
    obtain ⟨f', rfl⟩ : ∃ f', f = f' + 1 := ⟨f - 1, by omega⟩
    obtain ⟨d', ha, _⟩ := h σ [] f' d (by omega) (by omega) hs
    exact ⟨d'.scanNext, by simp [value, hs.op, ha]⟩

theorem spec_object (pf : Bytes → UInt64) (n : Nat) (body : Bytes) (es : JMems)
    (h : ∀ (σ : List PS) (rest : Bytes) (f : Nat) (d : DState), σ.length + 1 + n ≤ maxNestingDepth → 2 * body.length + 1 ≤ f →
      Sees d .beginStringOrEmpty (.objKey :: σ) (body ++ 0x7D :: rest) 0x7B .beginObject →
      ∃ d', objectLoop pf f d = .ok es d' ∧ Sees d' (popTo σ .endObject).step (popTo σ .endObject).stack rest 0x7D .endObject) :
    SpecVal pf (n + 1) (0x7B :: body ++ [0x7D]) (.obj (insertAll es .nil)) := by
  have hb : ∀ σ : List PS, σ.length < maxNestingDepth →
      stateBeginValue σ 0x7B = goTo .beginStringOrEmpty (.objKey :: σ) .beginObject := by
    intro σ hσ; simp [stateBeginValue, isSpace, pushTo_ok _ _ _ _ hσ]
  constructor
  · intro c0 t' he σ c rest f d hdep _ hne hfuel hs
    simp only [List.cons_append, List.cons.injEq] at he
    obtain ⟨rfl, rfl⟩ := he
    rw [hb σ (by omega)] at hs
    simp only [goTo, List.append_assoc, List.cons_append, List.nil_append] at hs
    simp only [List.length_cons, List.length_append, List.length_nil] at hfuel
    obtain ⟨f', rfl⟩ : ∃ f', f = f' + 1 := ⟨f - 1, by omega⟩
    obtain ⟨d', ha, hd'⟩ := h σ (c :: rest) f' d (by omega) (by omega) hs
    refine ⟨d'.scanNext, by simp [value, hs.op, ha], ?_⟩
    exact scanNext_after_close d' σ .endObject c rest _ _ hd' hne
  · intro c0 t' he σ f d hdep hfuel hs
    simp only [List.cons_append, List.cons.injEq] at he
    obtain ⟨rfl, rfl⟩ := he
    rw [hb σ (by omega)] at hs
    simp only [goTo] at hs
    simp only [List.length_cons, List.length_append, List.length_nil] at hfuel
    obtain ⟨f', rfl⟩ : ∃ f', f = f' + 1 := ⟨f - 1, by omega⟩
    obtain ⟨d', ha, _⟩ := h σ [] f' d (by omega) (by omega) hs
    exact ⟨d'.scanNext, by simp [value, hs.op, ha]⟩

theorem spec_arrEmpty (pf : Bytes → UInt64) (n : Nat) {w : Bytes} (hw : WS w) :
    SpecVal pf (n + 1) (0x5B :: w ++ [0x5D]) (.arr .nil) := by
  apply spec_array
  intro σ rest f d _ hfuel hs
  obtain ⟨f', rfl⟩ : ∃ f', f = f' + 1 := ⟨f - 1, by omega⟩
  have hd : delta .beginValueOrEmpty (.arr :: σ) 0x5D = popTo σ .endArray := by
    simp [delta, stateBeginValueOrEmpty, stateEndValue, isSpace]
  have h1 := scanWhile_ws .beginValueOrEmpty (.arr :: σ) (slo_beginValueOrEmpty _) w hw 0x5D rest
    (by rw [hd]; cases σ <;> simp [popTo, goTo]) (by rw [hd]; exact popTo_ne _ _) d.scan d.last hs.clean hs.step hs.stack
  rw [hd] at h1
  have hop' : (popTo σ .endArray).op = .endArray := by cases σ <;> simp [popTo, goTo]
  rw [hop'] at h1
  have h1' : Sees (d.scanWhile .skipSpace).2.2 (popTo σ .endArray).step (popTo σ .endArray).stack rest 0x5D .endArray := by
    unfold DState.scanWhile; rw [hs.rest]; exact h1
  refine ⟨_, ?_, h1'⟩
  simp only [arrayLoop, h1'.op, if_true]

theorem spec_objEmpty (pf : Bytes → UInt64) (n : Nat) {w : Bytes} (hw : WS w) :
    SpecVal pf (n + 1) (0x7B :: w ++ [0x7D]) (.obj .nil) := by
  have := spec_object pf n w .nil ?_
  · simpa [insertAll] using this
  intro σ rest f d _ hfuel hs
  obtain ⟨f', rfl⟩ : ∃ f', f = f' + 1 := ⟨f - 1, by omega⟩
  have hd : delta .beginStringOrEmpty (.objKey :: σ) 0x7D = popTo σ .endObject := by
    simp [delta, stateBeginStringOrEmpty, stateEndValue, isSpace]
  have h1 := scanWhile_ws .beginStringOrEmpty (.objKey :: σ) (slo_beginStringOrEmpty _) w hw 0x7D rest
    (by rw [hd]; cases σ <;> simp [popTo, goTo]) (by rw [hd]; exact popTo_ne _ _) d.scan d.last hs.clean hs.step hs.stack
  rw [hd] at h1
  have hop' : (popTo σ .endObject).op = .endObject := by cases σ <;> simp [popTo, goTo]
  rw [hop'] at h1
  have h1' : Sees (d.scanWhile .skipSpace).2.2 (popTo σ .endObject).step (popTo σ .endObject).stack rest 0x7D .endObject := by
    unfold DState.scanWhile; rw [hs.rest]; exact h1
  refine ⟨_, ?_, h1'⟩
  simp only [objectLoop, h1'.op, if_true]

/-- One element inside an array: skip the white space, read the value, skip the white space after
it; the decoder then sits on the punctuation byte `p`. -/
theorem elem_step (pf : Bytes → UInt64) {n : Nat} {w1 t w2 : Bytes} {v : J} (hw1 : WS w1) (hv : ValD pf n t v) (hw2 : WS w2)
    (ih : SpecVal pf n t v) (σ : List PS) (p : UInt8) (rest : Bytes) (f' : Nat) (d : DState) (st0 : Step) (l : UInt8) (op0 : Op)
    (hdep : σ.length + 1 + n ≤ maxNestingDepth) (hst0 : st0 = .beginValue ∨ st0 = .beginValueOrEmpty) (hp : Follow p)
    (hop : (stateEndValue (.arr :: σ) p).op ≠ .skipSpace) (hne : (stateEndValue (.arr :: σ) p).step ≠ .error)
    (hfuel : 2 * t.length ≤ f') (hs : Sees d st0 (.arr :: σ) (w1 ++ (t ++ (w2 ++ p :: rest))) l op0) :
    ∃ d2, value pf f' (d.scanWhile .skipSpace).2.2 = .ok v d2 ∧ (d.scanWhile .skipSpace).2.2.opcode ≠ .endArray ∧
      SeesAfter (if d2.opcode = .skipSpace then (d2.scanWhile .skipSpace).2.2 else d2) (.arr :: σ) p rest := by
  obtain ⟨c0, t', rfl, hc0⟩ := val_start hv.toVal
  obtain ⟨b1, b2, b3, _⟩ := valStart_begin (.arr :: σ) c0 hc0 (valD_room hv (.arr :: σ) (by simp only [List.length_cons]; omega))
  have hdel : delta st0 (.arr :: σ) c0 = stateBeginValue (.arr :: σ) c0 := by
    rcases hst0 with rfl | rfl
    · rfl
    · exact orEmpty_start _ c0 hc0
  have hslo : SpaceLoopOp st0 (.arr :: σ) := by
    rcases hst0 with rfl | rfl
    · exact slo_beginValue _
    · exact slo_beginValueOrEmpty _
  have h1 : Sees (d.scanWhile .skipSpace).2.2 (stateBeginValue (.arr :: σ) c0).step (stateBeginValue (.arr :: σ) c0).stack
      (t' ++ (w2 ++ p :: rest)) c0 (stateBeginValue (.arr :: σ) c0).op := by
    have := scanWhile_ws st0 (.arr :: σ) hslo w1 hw1 c0 (t' ++ (w2 ++ p :: rest)) (by rw [hdel]; exact b2)
      (by rw [hdel]; exact b1) d.scan d.last hs.clean hs.step hs.stack
    rw [hdel] at this
    unfold DState.scanWhile; rw [hs.rest]; exact this
  obtain ⟨c, rest0, hcr, hfc, hnec⟩ := next_byte .arr σ w2 hw2 p rest hp hne
  rw [hcr] at h1
  obtain ⟨d2, hval, hd2⟩ := ih.1 c0 t' rfl (.arr :: σ) c rest0 f' _ (by simp only [List.length_cons]; omega) hfc hnec hfuel h1
  refine ⟨d2, hval, by rw [h1.op]; exact b3, ?_⟩
  apply after_value_ws .arr σ w2 hw2 p rest d2 hop hne
  intro c' rest0' he
  rw [hcr] at he
  cases he
  exact hd2

theorem spec_elems_one (pf : Bytes → UInt64) {n : Nat} {w1 t w2 : Bytes} {v : J} (hw1 : WS w1) (hv : ValD pf n t v) (hw2 : WS w2)
    (ih : SpecVal pf n t v) : SpecElems pf n (w1 ++ t ++ w2) (.cons v .nil) := by
  intro σ rest f d st0 l op0 hdep hst0 hfuel hs
  simp only [List.append_assoc] at hs
  simp only [List.length_append] at hfuel
  obtain ⟨f', rfl⟩ : ∃ f', f = f' + 1 := ⟨f - 1, by omega⟩
  have hpop : stateEndValue (.arr :: σ) 0x5D = popTo σ .endArray := by simp [stateEndValue, isSpace]
  have hopp : (popTo σ .endArray).op = .endArray := by cases σ <;> simp [popTo, goTo]
  obtain ⟨d2, hval, hne1, h3⟩ := elem_step pf hw1 hv hw2 ih σ 0x5D rest f' d st0 l op0 hdep hst0 follow_punct.1
    (by rw [hpop, hopp]; decide) (by rw [hpop]; exact popTo_ne _ _) (by omega) hs
  unfold SeesAfter at h3
  rw [hpop, hopp] at h3
  refine ⟨_, ?_, h3⟩
  simp only [arrayLoop, hne1, if_false, hval, h3.op, if_true]

theorem spec_elems_more (pf : Bytes → UInt64) {n : Nat} {w1 t w2 : Bytes} {v : J} {e : Bytes} {xs : JList} (hw1 : WS w1)
    (hv : ValD pf n t v) (hw2 : WS w2) (ih : SpecVal pf n t v) (ihe : SpecElems pf n e xs) :
    SpecElems pf n (w1 ++ t ++ w2 ++ 0x2C :: e) (.cons v xs) := by
  intro σ rest f d st0 l op0 hdep hst0 hfuel hs
  simp only [List.append_assoc, List.cons_append] at hs
  simp only [List.length_append, List.length_cons] at hfuel
  obtain ⟨f', rfl⟩ : ∃ f', f = f' + 1 := ⟨f - 1, by omega⟩
  have hcomma : stateEndValue (.arr :: σ) 0x2C = goTo .beginValue (.arr :: σ) .arrayValue := by simp [stateEndValue, isSpace]
  obtain ⟨d2, hval, hne1, h3⟩ := elem_step pf hw1 hv hw2 ih σ 0x2C (e ++ 0x5D :: rest) f' d st0 l op0 hdep hst0 follow_punct.2.2.1
    (by rw [hcomma]; simp [goTo]) (by rw [hcomma]; simp [goTo]) (by omega) hs
  unfold SeesAfter at h3
  rw [hcomma] at h3
  simp only [goTo] at h3
  obtain ⟨d4, hloop, hd4⟩ := ihe σ rest f' _ .beginValue _ _ hdep (.inl rfl) (by omega) h3
  refine ⟨d4, ?_, hd4⟩
  have ho1 : ¬ (Op.arrayValue = Op.endArray) := by decide
  simp only [arrayLoop, hne1, if_false, hval, h3.op, ho1, ne_eq, not_true_eq_false, hloop]

/-- One member inside an object, up to the punctuation byte `p` after its value. -/
theorem member_step (pf : Bytes → UInt64) {n : Nat} {w1 k w2 w3 t w4 : Bytes} {v : J} (hw1 : WS w1) (hk : StrBody k) (hw2 : WS w2)
    (hw3 : WS w3) (hv : ValD pf n t v) (hw4 : WS w4) (ih : SpecVal pf n t v) (hq : (unquote (quote k)).isSome = true)
    (σ : List PS) (p : UInt8) (rest : Bytes) (f' : Nat) (d : DState) (st0 : Step) (l : UInt8) (op0 : Op)
    (hdep : σ.length + 1 + n ≤ maxNestingDepth) (hst0 : st0 = .beginString ∨ st0 = .beginStringOrEmpty) (hp : Follow p)
    (hop : (stateEndValue (.objVal :: σ) p).op ≠ .skipSpace) (hne : (stateEndValue (.objVal :: σ) p).step ≠ .error)
    (hfuel : 2 * t.length ≤ f')
    (hs : Sees d st0 (.objKey :: σ) (w1 ++ 0x22 :: (k ++ 0x22 :: (w2 ++ 0x3A :: (w3 ++ (t ++ (w4 ++ p :: rest)))))) l op0) :
    ∃ d6, SeesAfter d6 (.objVal :: σ) p rest ∧
      objectLoop pf (f' + 1) d =
        (if d6.opcode = .endObject then .ok (.cons (strDen k) v .nil) d6
         else if d6.opcode ≠ .objectValue then .panic phasePanic
         else match objectLoop pf f' d6 with
           | .ok es d7 => .ok (.cons (strDen k) v es) d7
           | .panic w => .panic w
           | .outOfFuel => .outOfFuel) := by
  simp only [objectLoop]
  -- the opening quote of the key
  have hdel : delta st0 (.objKey :: σ) 0x22 = goTo .inString (.objKey :: σ) .beginLiteral := by
    rcases hst0 with rfl | rfl <;> simp [delta, stateBeginString, stateBeginStringOrEmpty, isSpace]
  have hslo : SpaceLoopOp st0 (.objKey :: σ) := by
    rcases hst0 with rfl | rfl
    · exact slo_beginString _
    · exact slo_beginStringOrEmpty _
  have h1 : Sees (d.scanWhile .skipSpace).2.2 .inString (.objKey :: σ)
      (k ++ 0x22 :: (w2 ++ 0x3A :: (w3 ++ (t ++ (w4 ++ p :: rest))))) 0x22 .beginLiteral := by
    have := scanWhile_ws st0 (.objKey :: σ) hslo w1 hw1 0x22 (k ++ 0x22 :: (w2 ++ 0x3A :: (w3 ++ (t ++ (w4 ++ p :: rest)))))
      (by rw [hdel]; simp [goTo]) (by rw [hdel]; simp [goTo])
      d.scan d.last hs.clean hs.step hs.stack
    rw [hdel] at this
    unfold DState.scanWhile; rw [hs.rest]; exact this
  generalize (d.scanWhile .skipSpace).2.2 = d1 at h1 ⊢
  simp only [h1.op, reduceCtorEq, if_false, ne_eq, not_true_eq_false]
  -- the key
  have hcolon : stateEndValue (.objKey :: σ) 0x3A = goTo .beginValue (.objVal :: σ) .objectKey := by
    simp [stateEndValue, isSpace]
  obtain ⟨c1, rest1, hcr1, hfc1, hnec1⟩ := next_byte .objKey σ w2 hw2 0x3A (w3 ++ (t ++ (w4 ++ p :: rest))) follow_punct.2.2.2
    (by rw [hcolon]; simp [goTo])
  have hkey := scanWhile_conts (.objKey :: σ) (k ++ [0x22]) c1 rest1 .inString .endValue d1.scan d1.last
    (conts_strBody _ hk) (endValue_op_ne _ c1) hnec1 h1.clean h1.step h1.stack
  have hrest1 : d1.rest = (k ++ [0x22]) ++ c1 :: rest1 := by rw [h1.rest, ← hcr1]; simp
  have hk2 : (d1.scanWhile .continue_).1 = k ++ [0x22] := by
    unfold DState.scanWhile
    rw [hrest1]
    exact hkey.1
  have h2 : SeesAfter (d1.scanWhile .continue_).2.2 (.objKey :: σ) c1 rest1 := by
    unfold DState.scanWhile; rw [hrest1]; exact hkey.2.2
  simp only [hk2]
  generalize (d1.scanWhile .continue_).2.2 = d2 at h2 ⊢
  have hu : unquote (d1.last :: (k ++ [0x22])) = some (strDen k) := by
    rw [h1.last]
    unfold strDen
    cases h : unquote (quote k) with
    | none => rw [h] at hq; simp at hq
    | some s => simpa [quote] using h
  simp only [hu]
  -- the colon
  have h3 := after_value_ws .objKey σ w2 hw2 0x3A (w3 ++ (t ++ (w4 ++ p :: rest))) d2 (by rw [hcolon]; simp [goTo])
    (by rw [hcolon]; simp [goTo]) (by
      intro c' rest0' he
      rw [hcr1] at he
      cases he
      exact h2)
  unfold SeesAfter at h3
  rw [hcolon] at h3
  simp only [goTo] at h3
  generalize (if d2.opcode = .skipSpace then (d2.scanWhile .skipSpace).2.2 else d2) = d3 at h3 ⊢
  simp only [h3.op, ne_eq, not_true_eq_false, if_false]
  -- the value
  obtain ⟨c0, t', rfl, hc0⟩ := val_start hv.toVal
  obtain ⟨b1, b2, _, _⟩ := valStart_begin (.objVal :: σ) c0 hc0 (valD_room hv (.objVal :: σ) (by simp only [List.length_cons]; omega))
  have h4 : Sees (d3.scanWhile .skipSpace).2.2 (stateBeginValue (.objVal :: σ) c0).step
      (stateBeginValue (.objVal :: σ) c0).stack (t' ++ (w4 ++ p :: rest)) c0 (stateBeginValue (.objVal :: σ) c0).op := by
    have := scanWhile_ws .beginValue (.objVal :: σ) (slo_beginValue _) w3 hw3 c0 (t' ++ (w4 ++ p :: rest)) b2 b1
      d3.scan d3.last h3.clean h3.step h3.stack
    unfold DState.scanWhile; rw [h3.rest]; exact this
  generalize (d3.scanWhile .skipSpace).2.2 = d4 at h4 ⊢
  obtain ⟨c, rest0, hcr, hfc, hnec⟩ := next_byte .objVal σ w4 hw4 p rest hp hne
  rw [hcr] at h4
  obtain ⟨d5, hval, hd5⟩ := ih.1 c0 t' rfl (.objVal :: σ) c rest0 f' d4 (by simp only [List.length_cons]; omega) hfc hnec hfuel h4
  have h6 := after_value_ws .objVal σ w4 hw4 p rest d5 hop hne (by
    intro c' rest0' he
    rw [hcr] at he
    cases he
    exact hd5)
  simp only [hval]
  exact ⟨_, h6, rfl⟩

theorem spec_members_one (pf : Bytes → UInt64) {n : Nat} {w1 k w2 w3 t w4 : Bytes} {v : J} (hw1 : WS w1) (hk : StrBody k) (hw2 : WS w2)
    (hw3 : WS w3) (hv : ValD pf n t v) (hw4 : WS w4) (ih : SpecVal pf n t v) (hq : (unquote (quote k)).isSome = true) :
    SpecMembers pf n (w1 ++ quote k ++ w2 ++ 0x3A :: w3 ++ t ++ w4) (.cons (strDen k) v .nil) := by
  intro σ rest f d st0 l op0 hdep hst0 hfuel hs
  simp only [quote, List.append_assoc, List.cons_append, List.nil_append] at hs
  simp only [List.length_append, List.length_cons] at hfuel
  obtain ⟨f', rfl⟩ : ∃ f', f = f' + 1 := ⟨f - 1, by omega⟩
  have hpop : stateEndValue (.objVal :: σ) 0x7D = popTo σ .endObject := by simp [stateEndValue, isSpace]
  have hopp : (popTo σ .endObject).op = .endObject := by cases σ <;> simp [popTo, goTo]
  obtain ⟨d6, h6, hloop⟩ := member_step pf hw1 hk hw2 hw3 hv hw4 ih hq σ 0x7D rest f' d st0 l op0 hdep hst0 follow_punct.2.1
    (by rw [hpop, hopp]; decide) (by rw [hpop]; exact popTo_ne _ _) (by omega) hs
  unfold SeesAfter at h6
  rw [hpop, hopp] at h6
  refine ⟨d6, ?_, h6⟩
  rw [hloop]
  simp only [h6.op, if_true]

theorem spec_members_more (pf : Bytes → UInt64) {n : Nat} {w1 k w2 w3 t w4 : Bytes} {v : J} {m : Bytes} {es : JMems} (hw1 : WS w1)
    (hk : StrBody k) (hw2 : WS w2) (hw3 : WS w3) (hv : ValD pf n t v) (hw4 : WS w4) (ih : SpecVal pf n t v)
    (ihm : SpecMembers pf n m es) (hq : (unquote (quote k)).isSome = true) :
    SpecMembers pf n (w1 ++ quote k ++ w2 ++ 0x3A :: w3 ++ t ++ w4 ++ 0x2C :: m) (.cons (strDen k) v es) := by
  intro σ rest f d st0 l op0 hdep hst0 hfuel hs
  simp only [quote, List.append_assoc, List.cons_append, List.nil_append] at hs
  simp only [List.length_append, List.length_cons] at hfuel
  obtain ⟨f', rfl⟩ : ∃ f', f = f' + 1 := ⟨f - 1, by omega⟩
  have hcomma : stateEndValue (.objVal :: σ) 0x2C = goTo .beginString (.objKey :: σ) .objectValue := by
    simp [stateEndValue, isSpace]
  obtain ⟨d6, h6, hloop⟩ := member_step pf hw1 hk hw2 hw3 hv hw4 ih hq σ 0x2C (m ++ 0x7D :: rest) f' d st0 l op0 hdep hst0
    follow_punct.2.2.1 (by rw [hcomma]; simp [goTo]) (by rw [hcomma]; simp [goTo]) (by omega) hs
  unfold SeesAfter at h6
  rw [hcomma] at h6
  simp only [goTo] at h6
  obtain ⟨d7, hl7, hd7⟩ := ihm σ rest f' d6 .beginString _ _ hdep (.inl rfl) (by omega) h6
  refine ⟨d7, ?_, hd7⟩
  rw [hloop]
  simp only [h6.op, reduceCtorEq, if_false, ne_eq, not_true_eq_false, hl7]

/-- **Grammar ⇒ decoder.** On every text of the grammar nested no deeper than the parse stack leaves
room for, `value`/`arrayLoop`/`objectLoop` succeed (no phase panic, enough fuel) with the value the
text denotes, provided string tokens unquote. -/
theorem spec_all (pf : Bytes → UInt64) (hq : ∀ b, StrBody b → (unquote (quote b)).isSome = true) :
    (∀ {n t v}, ValD pf n t v → SpecVal pf n t v) ∧ (∀ {n e xs}, ElemsD pf n e xs → SpecElems pf n e xs) ∧
    (∀ {n m es}, MembersD pf n m es → SpecMembers pf n m es) := by
  apply grammarD_induction (P1 := SpecVal pf) (P2 := SpecElems pf) (P3 := SpecMembers pf)
  · intro n; exact spec_null pf n
  · intro n; exact spec_true pf n
  · intro n; exact spec_false pf n
  · intro n t hn; exact spec_num pf n hn
  · intro n b hb; exact spec_str pf n hb (hq b hb)
  · intro n w hw; exact spec_arrEmpty pf n hw
  · intro n e xs _ ih
    exact spec_array pf n e xs (fun σ rest f d hd hf hs => ih σ rest f d .beginValueOrEmpty _ _ hd (.inr rfl) hf hs)
  · intro n w hw; exact spec_objEmpty pf n hw
  · intro n m es _ ih
    exact spec_object pf n m es (fun σ rest f d hd hf hs => ih σ rest f d .beginStringOrEmpty _ _ hd (.inr rfl) hf hs)
  · intro n w1 t w2 v hw1 hv hw2 ih; exact spec_elems_one pf hw1 hv hw2 ih
  · intro n w1 t w2 v e xs hw1 hv hw2 _ ih ihe; exact spec_elems_more pf hw1 hv hw2 ih ihe
  · intro n w1 k w2 w3 t w4 v hw1 hk hw2 hw3 hv hw4 ih; exact spec_members_one pf hw1 hk hw2 hw3 hv hw4 ih (hq k hk)
  · intro n w1 k w2 w3 t w4 v m es hw1 hk hw2 hw3 hv hw4 _ ih ihm
    exact spec_members_more pf hw1 hk hw2 hw3 hv hw4 ih ihm (hq k hk)

/-! ### `Decode` on a text of the grammar -/

theorem clean_reset (s : Scanner) : Clean s.reset ∧ s.reset.step = .beginValue ∧ s.reset.stack = [] := by
  simp [Scanner.reset, Clean]

/-- **Grammar ⇒ `Decode`.** A JSON text nested at most `maxNestingDepth` deep decodes — no syntax
error, no phase panic, within the fuel `decode` provides — to the value it denotes. -/
theorem decode_json (pf : Bytes → UInt64) {b : Bytes} {v : J} (h : JsonD pf maxNestingDepth b v) : decode pf b = .ok v := by
  have hacc := json_accB h
  obtain ⟨sc, hsc⟩ := (checkValid_iff_accB b).mpr hacc
  obtain ⟨w1, t, w2, rfl, hw1, hv, hw2⟩ := h
  obtain ⟨c0, t', rfl, hc0⟩ := val_start hv.toVal
  obtain ⟨b1, b2, _, _⟩ := valStart_begin [] c0 hc0 (fun _ => by decide)
  obtain ⟨hclean, hstep, hstack⟩ := clean_reset sc
  have hspec := (spec_all pf (fun b hb => Tengo.Proofs.JsonUnquote.unquote_total b hb)).1 hv
  have hsee := scanWhile_ws .beginValue [] (slo_beginValue []) w1 hw1 c0 (t' ++ w2) b2 b1 sc.reset 0 hclean hstep hstack
  have hfuel : 2 * (c0 :: t').length ≤ decodeFuel (w1 ++ c0 :: t' ++ w2) := by
    simp [decodeFuel]; omega
  unfold decode
  rw [hsc]
  simp only
  have hlist : w1 ++ c0 :: t' ++ w2 = w1 ++ c0 :: (t' ++ w2) := by simp
  rw [hlist] at hfuel ⊢
  cases w2 with
  | nil =>
    simp only [List.append_nil] at hsee hfuel ⊢
    obtain ⟨d', hd'⟩ := hspec.2 c0 t' rfl [] _ _ (by simp) hfuel hsee
    rw [hd']
  | cons c r =>
    have hc := hw2 c (by simp)
    have hne : (stateEndValue [] c).step ≠ .error := by simp [stateEndValue, stateEndTop, hc, goTo]
    obtain ⟨d', hd', _⟩ := hspec.1 c0 t' rfl [] c r _ _ (by simp) (follow_space c hc) hne hfuel hsee
    rw [hd']

end Tengo.Proofs.JsonDecode

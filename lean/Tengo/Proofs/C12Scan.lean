import Tengo.Props.C12
/-!
C12, index-level facts about the scan loop of `RemoveDuplicates` (`Tengo.Model.Dedup.scan`), on top of
the invariant `Tengo.Props.C12.Inv`: every new index `j` has an *origin* — the first old index that maps
to `j` — whose constant is literally the one kept at `j`; every other old index that maps to `j` holds a
mergeable constant of the same table with an equal key.

These are what the bridge to the whole-VM model (`Tengo.Proofs.C12Renum`) needs: there the value
constants of the new pool are read from the original pool at the origin.
-/
set_option linter.unusedSectionVars false
set_option linter.unusedSimpArgs false
set_option linter.unusedVariables false
namespace Tengo.Proofs.C12Renum
open Tengo.Model Tengo.Model.Opcodes Tengo.Model.Dedup Tengo.Props.C12

/-- `i` is the first index of `m` that holds `j`. -/
def IsFirst (m : List Nat) (i j : Nat) : Prop := m[i]? = some j ∧ ∀ i', i' < i → m[i']? ≠ some j

theorem IsFirst.lt {m : List Nat} {i j : Nat} (h : IsFirst m i j) : i < m.length :=
  (List.getElem?_eq_some_iff.mp h.1).1

theorem IsFirst.append {m : List Nat} {i j : Nat} (x : Nat) (h : IsFirst m i j) : IsFirst (m ++ [x]) i j := by
  have hlt := h.lt
  refine ⟨by rw [List.getElem?_append_left hlt]; exact h.1, ?_⟩
  intro i' hi'
  rw [List.getElem?_append_left (by omega)]
  exact h.2 i' hi'

theorem IsFirst.unique {m : List Nat} {i i' j : Nat} (h : IsFirst m i j) (h' : IsFirst m i' j) : i = i' := by
  rcases Nat.lt_trichotomy i i' with hlt | heq | hgt
  · exact absurd h.1 (h'.2 i hlt)
  · exact heq
  · exact absurd h'.1 (h.2 i' hgt)

theorem IsFirst.findIdx {m : List Nat} {i j : Nat} (h : IsFirst m i j) : m.findIdx (· == j) = i := by
  have hlt := h.lt
  rw [List.findIdx_eq hlt]
  have hi : m[i] = j := by
    have := h.1
    rw [List.getElem?_eq_getElem hlt] at this
    exact Option.some.inj this
  refine ⟨by simp [hi], ?_⟩
  intro i' hi'
  have := h.2 i' hi'
  rw [List.getElem?_eq_getElem (by omega)] at this
  simpa using this

/-- The index-level invariant of the scan loop. -/
structure Inv2 (pre : List Const) (s : Scan) : Prop where
  orig : ∀ j d, s.deduped[j]? = some d → ∃ i0, IsFirst s.indexMap i0 j ∧ pre[i0]? = some d
  maps : ∀ i j c, s.indexMap[i]? = some j → pre[i]? = some c →
    IsFirst s.indexMap i j ∨
      (c.reusable = true ∧ ∃ kc kd d, c.key = some kc ∧ s.deduped[j]? = some d ∧ d.key = some kd ∧ kd.eqv kc = true)

theorem inv2_init : Inv2 [] ⟨[], [], []⟩ := by
  constructor <;> simp

theorem inv2_reuse {pre : List Const} {s : Scan} (hI : Inv pre s) (h2 : Inv2 pre s) (c : Const) (k : Key) (j : Nat)
    (hk : c.key = some k) (hr : c.reusable = true) (hg : s.table.get? k = some j) :
    Inv2 (pre ++ [c]) (s.reuse j) := by
  obtain ⟨k', hmem, heq⟩ := Table.get?_some hg
  obtain ⟨d, hd, hdk⟩ := hI.tsound k' j hmem
  constructor
  · intro j' d' hd'
    simp only [Scan.reuse] at hd' ⊢
    obtain ⟨i0, hf, hp⟩ := h2.orig j' d' hd'
    have hlt : i0 < pre.length := by rw [← hI.len]; exact hf.lt
    exact ⟨i0, hf.append j, by rw [List.getElem?_append_left hlt]; exact hp⟩
  · intro i j' x hm hx
    simp only [Scan.reuse] at hm ⊢
    rcases (getElem?_snoc _ _ _ _).mp hx with h | ⟨h1, h2'⟩
    · have hlt : i < s.indexMap.length := by rw [hI.len]; exact (List.getElem?_eq_some_iff.mp h).1
      rw [List.getElem?_append_left hlt] at hm
      rcases h2.maps i j' x hm h with hf | hr'
      · exact Or.inl (hf.append j)
      · exact Or.inr hr'
    · subst h2'
      have hm' : j' = j := by
        rcases (getElem?_snoc _ _ _ _).mp hm with h | ⟨_, h⟩
        · have := (List.getElem?_eq_some_iff.mp h).1
          rw [hI.len] at this; omega
        · exact h
      subst hm'
      exact Or.inr ⟨hr, k, k', d, hk, hd, hdk, heq⟩

theorem inv2_add {pre : List Const} {s : Scan} (hI : Inv pre s) (h2 : Inv2 pre s) (c : Const) (ko : Option Key) :
    Inv2 (pre ++ [c]) (s.add c ko) := by
  constructor
  · intro j' d' hd'
    simp only [Scan.add] at hd' ⊢
    rcases (getElem?_snoc _ _ _ _).mp hd' with h | ⟨h1, h2'⟩
    · obtain ⟨i0, hf, hp⟩ := h2.orig j' d' h
      have hlt : i0 < pre.length := by rw [← hI.len]; exact hf.lt
      exact ⟨i0, hf.append _, by rw [List.getElem?_append_left hlt]; exact hp⟩
    · subst h2'; subst h1
      refine ⟨pre.length, ⟨?_, ?_⟩, ?_⟩
      · exact (getElem?_snoc _ _ _ _).mpr (Or.inr ⟨hI.len.symm, rfl⟩)
      · intro i' hi' hc
        rw [List.getElem?_append_left (by rw [hI.len]; exact hi')] at hc
        have := hI.bound _ (List.mem_of_getElem? hc)
        omega
      · exact (getElem?_snoc _ _ _ _).mpr (Or.inr ⟨rfl, rfl⟩)
  · intro i j' x hm hx
    simp only [Scan.add] at hm ⊢
    rcases (getElem?_snoc _ _ _ _).mp hx with h | ⟨h1, h2'⟩
    · have hlt : i < s.indexMap.length := by rw [hI.len]; exact (List.getElem?_eq_some_iff.mp h).1
      rw [List.getElem?_append_left hlt] at hm
      rcases h2.maps i j' x hm h with hf | ⟨hr, kc, kd, d, h3, h4, h5, h6⟩
      · exact Or.inl (hf.append _)
      · exact Or.inr ⟨hr, kc, kd, d, h3, (getElem?_snoc _ _ _ _).mpr (Or.inl h4), h5, h6⟩
    · subst h2'
      have hm' : j' = s.deduped.length := by
        rcases (getElem?_snoc _ _ _ _).mp hm with h | ⟨_, h⟩
        · have := (List.getElem?_eq_some_iff.mp h).1
          rw [hI.len] at this; omega
        · exact h
      subst hm'
      refine Or.inl ⟨hm, ?_⟩
      intro i' hi' hc
      rw [h1] at hi'
      rw [List.getElem?_append_left (by rw [hI.len]; exact hi')] at hc
      have := hI.bound _ (List.mem_of_getElem? hc)
      omega

theorem inv2_step {pre : List Const} {s : Scan} (hI : Inv pre s) (h2 : Inv2 pre s) (c : Const) :
    Inv2 (pre ++ [c]) (scanStep s c) := by
  cases hk : c.key with
  | none =>
    have e : scanStep s c = s.add c none := by simp [scanStep, hk]
    rw [e]; exact inv2_add hI h2 c none
  | some k =>
    cases hg : s.table.get? k with
    | none =>
      have e : scanStep s c = s.add c (some k) := by simp [scanStep, hk, hg]
      rw [e]; exact inv2_add hI h2 c (some k)
    | some j =>
      by_cases hr : c.reusable = true
      · have e : scanStep s c = s.reuse j := by simp [scanStep, hk, hg, hr]
        rw [e]; exact inv2_reuse hI h2 c k j hk hr hg
      · have e : scanStep s c = s.add c (some k) := by simp [scanStep, hk, hg, hr]
        rw [e]; exact inv2_add hI h2 c (some k)

theorem inv2_scanFrom (cs : List Const) : ∀ (pre : List Const) (s : Scan), Inv pre s → Inv2 pre s →
    Inv2 (pre ++ cs) (scanFrom s cs) := by
  induction cs with
  | nil => intro pre s _ h; simpa [scanFrom] using h
  | cons c cs ih =>
    intro pre s hI h
    have := ih (pre ++ [c]) (scanStep s c) (inv_step hI c) (inv2_step hI h c)
    simpa [scanFrom, List.append_assoc] using this

theorem inv2_scan (cs : List Const) : Inv2 cs (scan cs) := by
  simpa [scan] using inv2_scanFrom cs [] _ inv_init inv2_init

/-- **Origins.** Old index `k` maps to a new index `j` below the new pool size; the first old index `i0`
that maps to `j` (`findIdx`) holds literally the constant kept at `j`; and `k` is that index, or holds a
mergeable constant whose key equals (Go map-key equality) the key of the kept one. -/
theorem scan_origin (cs : List Const) (k : Nat) (c : Const) (hc : cs[k]? = some c) :
    ∃ j i0 d, (scan cs).indexMap[k]? = some j ∧ (scan cs).deduped[j]? = some d ∧ cs[i0]? = some d ∧
      (scan cs).indexMap.findIdx (· == j) = i0 ∧
      (i0 = k ∨ (c.reusable = true ∧ ∃ kc kd, c.key = some kc ∧ d.key = some kd ∧ kd.eqv kc = true)) := by
  have hI := inv_scan cs
  have h2 := inv2_scan cs
  have hk : k < (scan cs).indexMap.length := by rw [hI.len]; exact (List.getElem?_eq_some_iff.mp hc).1
  have hj : (scan cs).indexMap[k]? = some ((scan cs).indexMap[k]) := List.getElem?_eq_getElem hk
  have hb := hI.bound _ (List.getElem_mem hk)
  have hd : (scan cs).deduped[(scan cs).indexMap[k]]? = some ((scan cs).deduped[(scan cs).indexMap[k]]) :=
    List.getElem?_eq_getElem hb
  obtain ⟨i0, hf, hp⟩ := h2.orig _ _ hd
  refine ⟨_, i0, _, hj, hd, hp, hf.findIdx, ?_⟩
  rcases h2.maps k _ c hj hc with hf' | ⟨hr, kc, kd, d, h3, h4, h5, h6⟩
  · exact Or.inl (hf.unique hf')
  · rw [hd] at h4
    cases h4
    exact Or.inr ⟨hr, kc, kd, h3, h5, h6⟩

end Tengo.Proofs.C12Renum

/-
S-expressions: the wire format of the line protocol between the Go harness and
the Lean driver (DESIGN.md Appendix A). Core Lean only.

Atoms are runs of characters other than whitespace and parentheses; byte
strings travel as `#<hex>` atoms. One expression per line.
-/
namespace Tengo

inductive Sexp where
  | atom (s : String)
  | list (xs : List Sexp)
  deriving Repr, Inhabited, BEq

namespace Sexp

/-- Parser state: finished items of the current list (reversed) and a stack of
enclosing lists (each reversed). Total: one pass over the characters. -/
structure PState where
  cur   : List Char := []          -- atom under construction (reversed)
  top   : List Sexp := []          -- items of the innermost open list (reversed)
  stack : List (List Sexp) := []   -- enclosing lists (reversed items each)
  bad   : Bool := false

def PState.flush (st : PState) : PState :=
  if st.cur.isEmpty then st
  else { st with cur := [], top := Sexp.atom (String.ofList st.cur.reverse) :: st.top }

def PState.step (st : PState) (c : Char) : PState :=
  if c == '(' then
    let st := st.flush
    { st with top := [], stack := st.top :: st.stack }
  else if c == ')' then
    let st := st.flush
    match st.stack with
    | [] => { st with bad := true }
    | up :: rest => { st with top := Sexp.list st.top.reverse :: up, stack := rest }
  else if c == ' ' || c == '\t' || c == '\n' || c == '\r' then st.flush
  else { st with cur := c :: st.cur }

/-- Parse all top-level expressions of a line. -/
def parseAll (s : String) : Option (List Sexp) :=
  let st := (s.toList.foldl PState.step {}).flush
  if st.bad || !st.stack.isEmpty then none else some st.top.reverse

/-- Parse a line that holds exactly one expression. -/
def parse (s : String) : Option Sexp :=
  match parseAll s with
  | some [x] => some x
  | _ => none

mutual
  def toStr : Sexp → String
    | atom s => s
    | list xs => "(" ++ listToStr xs ++ ")"
  def listToStr : List Sexp → String
    | [] => ""
    | [x] => toStr x
    | x :: xs => toStr x ++ " " ++ listToStr xs
end

instance : ToString Sexp := ⟨toStr⟩

def ofNat (n : Nat) : Sexp := atom (toString n)
def ofInt (n : Int) : Sexp := atom (toString n)
def ofBool (b : Bool) : Sexp := atom (if b then "1" else "0")

def asAtom? : Sexp → Option String
  | atom s => some s
  | _ => none

def asList? : Sexp → Option (List Sexp)
  | list xs => some xs
  | _ => none

def asNat? : Sexp → Option Nat
  | atom s => s.toNat?
  | _ => none

def asInt? : Sexp → Option Int
  | atom s => s.toInt?
  | _ => none

def asBool? : Sexp → Option Bool
  | atom "1" => some true
  | atom "0" => some false
  | _ => none

/-! ### Hex byte strings `#6869` -/

def hexDigit (n : Nat) : Char :=
  if n < 10 then Char.ofNat (48 + n) else Char.ofNat (87 + n)

def hexVal? (c : Char) : Option Nat :=
  if '0' ≤ c ∧ c ≤ '9' then some (c.toNat - 48)
  else if 'a' ≤ c ∧ c ≤ 'f' then some (c.toNat - 87)
  else if 'A' ≤ c ∧ c ≤ 'F' then some (c.toNat - 55)
  else none

def hexOfBytes (bs : List UInt8) : String :=
  String.ofList (bs.foldr (fun b acc => hexDigit (b.toNat / 16) :: hexDigit (b.toNat % 16) :: acc) [])

def bytesOfHexChars : List Char → Option (List UInt8)
  | [] => some []
  | a :: b :: rest => do
      let x ← hexVal? a
      let y ← hexVal? b
      let tl ← bytesOfHexChars rest
      pure (UInt8.ofNat (x * 16 + y) :: tl)
  | _ => none

def ofBytes (bs : List UInt8) : Sexp := atom ("#" ++ hexOfBytes bs)

def asBytes? : Sexp → Option (List UInt8)
  | atom s =>
    match s.toList with
    | '#' :: rest => bytesOfHexChars rest
    | _ => none
  | _ => none

end Sexp
end Tengo

import Tengo.Sexp
